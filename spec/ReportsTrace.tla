---------------------------- MODULE ReportsTrace ----------------------------
(***************************************************************************)
(* C20, code -> spec: validation of traces of the report commands of the   *)
(* real binary.  Every line carries the full projected recorded state      *)
(* after the event (vocabulary of ArrayTrace: cf / del / info, plus links, *)
(* the pool tree, byte digests) and, for List / Dup / Status / Pool, the   *)
(* DECODED real output (tag stream decoded with the inverse of the         *)
(* documented tag escaping, terminal stream with the inverse of the shell  *)
(* escaping).  TLC checks, per event,                                      *)
(*      decoded output = Report(recorded state)     (Reports.tla)          *)
(* in both directions (nothing missing, nothing extra), and the frame      *)
(* (no data / parity / content byte changes; pool touches the pool only).  *)
(*                                                                         *)
(* Mismatches are collected in `found` (one record per failed check; the   *)
(* trace always continues from the real state, so one finding does not     *)
(* hide the others) and `diag` / `pviol` hold the findings of the last     *)
(* step.  INVARIANT NoFinding fails at the end of the trace if anything    *)
(* was found; the complete list is also written as JSON (FOUND).           *)
(***************************************************************************)
EXTENDS Integers, Sequences, FiniteSets, TLC, Json, IOUtils

TraceFile == IF "TRACE" \in DOMAIN IOEnv THEN IOEnv.TRACE ELSE "trace.ndjson"
FoundFile == IF "FOUND" \in DOMAIN IOEnv THEN IOEnv.FOUND ELSE "found.json"
TraceLog == ndJsonDeserialize(TraceFile)
Hdr == TraceLog[1]

D == {Hdr.D[i] : i \in 1..Len(Hdr.D)}
NP == Hdr.NP
BS == Hdr.BS
VLen == [x \in {} |-> 0]
NameOrder == <<>>

INSTANCE Reports

VARIABLES l,        \* next line
          cfgl,     \* line of the last Reset (configuration of the running execution)
          diag,     \* report # function(state) findings of the last step
          pviol,    \* frame findings of the last step
          found     \* all findings so far
vars == <<l, cfgl, diag, pviol, found>>

ToSet(s) == {s[i] : i \in 1..Len(s)}
StateC(s) == [cf |-> s.cf, del |-> s.del, info |-> s.info]
Ev == TraceLog[l]
Prev == TraceLog[l - 1]
Conf == TraceLog[cfgl].conf
IsEvent(e) == l <= Len(TraceLog) /\ TraceLog[l].e = e

Finding(check, cond, detail) == IF cond THEN <<[line |-> l, ev |-> Ev.e, check |-> check, detail |-> detail]>> ELSE <<>>
SetFinding(check, model, real) ==
    Finding(check, model # real, [missing |-> model \ real, extra |-> real \ model])

(* ---- frame: the report commands change nothing (pool: nothing outside the pool directory) ---- *)
Frame(s0, s1, ispool) ==
    Finding("frame-data-changed", s1.sha.f # s0.sha.f, <<>>) \o
    Finding("frame-parity-changed", s1.sha.p # s0.sha.p, <<>>) \o
    Finding("frame-content-changed", s1.sha.c # s0.sha.c, <<>>) \o
    Finding("frame-outside-changed", s1.sha.o # s0.sha.o, <<s0.sha.o, s1.sha.o>>) \o
    Finding("frame-extra-artefacts", ToSet(s1.sha.xo) # ToSet(s0.sha.xo), <<s0.sha.xo, s1.sha.xo>>) \o
    Finding("frame-pool-changed", ~ispool /\ s1.pool # s0.pool, <<>>) \o
    Finding("frame-recorded-state-changed", StateC(s1) # StateC(s0) \/ s1.links # s0.links, <<>>)

(* ---- list ---- *)
TermFile(f, t) == [d |-> IF t.mode = "disk" THEN f.d ELSE "", n |-> f.n, sz |-> f.sz,
                   s |-> IF t.verbose THEN f.s ELSE (f.s + Hdr.bmod) \div 60, ns |-> IF t.verbose THEN f.ns ELSE 0 - 1]
TermLink(x, t) == [d |-> IF t.mode = "disk" THEN x.d ELSE "", n |-> x.n, k |-> x.k, to |-> x.to]
ListCheck(s0, o) ==
    LET C == StateC(s0)
        M == ListOf(C, s0.links)
        lf == {[d |-> x.d, n |-> x.n, sz |-> x.sz, s |-> x.s, ns |-> x.ns] : x \in ToSet(o.files)}
        ll == ToSet(o.links)
        badino == {x \in ToSet(o.files) : x.n \in DOMAIN C.cf[x.d] /\ x.ino # C.cf[x.d][x.n].ino}
        t == o.term
    IN Finding("rc", o.rc # 0, o.rc) \o
       Finding("log-undecodable-lines", Len(o.junk) # 0, o.junk) \o
       SetFinding("log-files", M.files, lf) \o
       SetFinding("log-links", M.links, ll) \o
       Finding("log-duplicate-lines", Len(o.files) # Cardinality(lf) \/ Len(o.links) # Cardinality(ll), <<>>) \o
       Finding("log-inode", badino # {}, badino) \o
       Finding("log-summary", o.sum # [file_count |-> M.file_count, file_size |-> M.file_size, link_count |-> M.link_count, exit |-> "ok"],
               <<o.sum, M.file_count, M.file_size, M.link_count>>) \o
       Finding("term-undecodable-lines", Len(t.junk) # 0, t.junk) \o
       SetFinding("term-files", {TermFile(f, t) : f \in M.files}, ToSet(t.files)) \o
       SetFinding("term-links", {TermLink(x, t) : x \in M.links}, ToSet(t.links)) \o
       Finding("term-line-count", Len(t.files) # M.file_count \/ Len(t.links) # M.link_count, <<Len(t.files), Len(t.links)>>)

(* ---- dup ---- *)
DupCheck(s0, o) ==
    LET C == StateC(s0)
        F == RFiles(C)
        P == ToSet(o.pairs)
        known == \A x \in P : <<x.d, x.n>> \in F /\ <<x.d2, x.n2>> \in F
        E == {<<<<x.d, x.n>>, <<x.d2, x.n2>>>> : x \in P}
        G == DupGroups(C)
        cnt == DupCount(C)
        t == o.term
        TP == ToSet(t.pairs)
        tknown == IF t.mode = "disk" THEN \A x \in TP : <<x.d, x.n>> \in F /\ <<x.d2, x.n2>> \in F ELSE TRUE
        TE == {<<<<x.d, x.n>>, <<x.d2, x.n2>>>> : x \in TP}
        \* without disk names on the terminal: every line must stand for two files of one class
        tfileok == \A x \in TP : \E K \in G : \E a \in K : \E b \in K : a # b /\ a[2] = x.n /\ b[2] = x.n2 /\ FileOf(C, a).sz = x.sz
    IN Finding("rc", o.rc # 0, o.rc) \o
       Finding("log-undecodable-lines", Len(o.junk) # 0, o.junk) \o
       Finding("log-unknown-file", ~known, P) \o
       Finding("log-classes", known /\ ~DupReportOKG(G, E), [reported |-> E, classes |-> G]) \o
       Finding("log-sizes", known /\ \E x \in P : x.sz # FileOf(C, <<x.d2, x.n2>>).sz, P) \o
       Finding("log-summary", o.sum # [dup_count |-> cnt, dup_size |-> DupSize(C), exit |-> IF cnt = 0 THEN "unique" ELSE "dup"] \/ Len(o.pairs) # cnt,
               <<o.sum, Len(o.pairs), cnt, DupSize(C)>>) \o
       Finding("term-undecodable-lines", Len(t.junk) # 0, t.junk) \o
       Finding("term-classes", IF t.mode = "disk" THEN ~tknown \/ ~DupReportOKG(G, TE) \/ \E x \in TP : x.sz # FileOf(C, <<x.d, x.n>>).sz
                               ELSE ~tfileok, [reported |-> TP, classes |-> G]) \o
       Finding("term-line-count", Len(t.pairs) # cnt, <<Len(t.pairs), cnt>>)

(* ---- status ---- *)
BlockLine(b) == [pos |-> b.pos, info |-> b.info, t |-> b.t, used |-> b.used, unsynced |-> b.unsynced, bad |-> b.bad, rh |-> b.rh]
StatusCheck(s0, o) ==
    LET C == StateC(s0)
        S == StatusOf(C, o.now)
        MS == [block_size |-> BS, parity_block_count |-> S.block_count, block_count |-> S.block_count,
               has_unsynced |-> S.has_unsynced, has_unscrubbed |-> S.has_unscrubbed, has_rehash |-> S.has_rehash,
               file_count |-> S.file_count, file_block_count |-> S.file_block_count,
               fragmented_file_count |-> S.fragmented, excess_fragment_count |-> S.excess,
               zerosubsecond_file_count |-> S.zerosub, file_size |-> S.file_size, parity_size |-> S.parity_size,
               info_count |-> IF S.info_count = 0 THEN 0 - 1 ELSE S.info_count]
        wrong == {k \in DOMAIN MS : o.sum[k] # MS[k]}
        MD(d) == [file_count |-> S.disks[d].file_count, block_count |-> S.disks[d].block_count,
                  fragmented |-> S.disks[d].fragmented, excess |-> S.disks[d].excess, zerosub |-> S.disks[d].zerosub,
                  file_size |-> S.disks[d].file_size, allocated |-> S.disks[d].allocated]
        wrongd == {d \in D : o.disks[d] # MD(d)}
        zs == ToSet(o.zs)
        zbad == {d \in D : ~ZeroLinesOK(C, d, {x \in zs : x.d = d})}
        its == {[t |-> x.t, js |-> x.js, n |-> x.n] : x \in ToSet(o.info_times)}
        t == o.term
        empty == S.info_count = 0
        MT == [unsynced |-> S.has_unsynced > 0, pct_synced |-> IF S.has_unsynced > 0 THEN S.pct_synced ELSE 0 - 1,
               pct_unscrubbed |-> IF S.has_unscrubbed > 0 THEN S.pct_unscrubbed ELSE 0,
               zerosub |-> S.zerosub, rehash |-> S.has_rehash > 0,
               bad |-> S.has_bad[1], bad_first |-> S.has_bad[2], bad_last |-> S.has_bad[3],
               days |-> S.days, file_count |-> S.file_count, fragmented |-> S.fragmented, excess |-> S.excess]
        twrong == IF empty THEN {} ELSE {k \in DOMAIN MT : t.v[k] # MT[k]}
        tdisks == {d \in D : t.disks[d] # [file_count |-> S.disks[d].file_count, fragmented |-> S.disks[d].fragmented, excess |-> S.disks[d].excess]}
        \* the terminal lists at most 101 bad positions
        tbad == ToSet(t.bad_list)
    IN Finding("rc", o.rc # 0, o.rc) \o
       Finding("log-undecodable-lines", Len(o.junk) # 0, o.junk) \o
       Finding("blocks", o.gui /\ o.blocks # [q \in 1..Len(S.blocks) |-> BlockLine(S.blocks[q])],
               [real |-> o.blocks, model |-> [q \in 1..Len(S.blocks) |-> BlockLine(S.blocks[q])]]) \o
       Finding("blocks-without-gui", ~o.gui /\ Len(o.blocks) # 0, <<>>) \o
       Finding("counters", wrong # {}, [k \in wrong |-> <<o.sum[k], MS[k]>>]) \o
       Finding("has-bad", o.has_bad # S.has_bad, <<o.has_bad, S.has_bad>>) \o
       Finding("hash-kind", o.hash # s0.hk, <<o.hash, s0.hk>>) \o
       Finding("disk-counters", wrongd # {}, [d \in wrongd |-> <<o.disks[d], MD(d)>>]) \o
       Finding("zerosubsecond", zbad # {} \/ Cardinality(zs) # Len(o.zs), [lines |-> o.zs, files |-> S.zero_files]) \o
       Finding("info-times", ~empty /\ (its # S.info_times \/ Cardinality(its) # Len(o.info_times)), <<its, S.info_times>>) \o
       Finding("term-undecodable-lines", Len(t.junk) # 0, t.junk) \o
       Finding("term-empty", t.empty # empty, <<t.empty, empty>>) \o
       Finding("term-disks", tdisks # {}, tdisks) \o
       Finding("term-figures", twrong # {}, [k \in twrong |-> <<t.v[k], MT[k]>>]) \o
       Finding("term-bad-list", ~empty /\ (IF S.has_bad[1] <= 101 THEN tbad # S.bad_positions ELSE ~(tbad \subseteq S.bad_positions /\ Cardinality(tbad) = 101)),
               <<t.bad_list, S.bad_positions>>)

(* ---- pool ---- *)
PoolCheck(s0, s1, o) ==
    LET C == StateC(s0)
        L == s0.links
        P0 == s0.pool
        P1 == s1.pool
        prefix == Conf.prefix
        n == Cardinality(RFiles(C)) + Cardinality(RLinks(L))
        want == PoolPaths(C, L) \ Foreign(P0)
        \* a link whose target still exists as a regular file must resolve (through the operating system) to that very file
        unresolved == {p \in LinksIn(P1) \cap want : \E d \in Owners(C, L, p) :
                          /\ P1[p].to = Target(prefix, d, p)
                          /\ p \in ToSet(s1.ex[d])
                          /\ d \notin ToSet(P1[p].res)}
    IN Finding("rc", o.rc # 0, o.rc) \o
       Finding("log-undecodable-lines", Len(o.junk) # 0, o.junk) \o
       Finding("link-count", o.link_count # n, <<o.link_count, n>>) \o
       Finding("tree", ~PoolOK(C, L, prefix, P0, P1),
               [stale_links_kept |-> {p \in LinksIn(P1) \ want : p \in LinksIn(P0)},
                other_extra_links |-> {p \in LinksIn(P1) \ want : p \notin LinksIn(P0)},
                missing_links |-> want \ LinksIn(P1),
                wrong_targets |-> {p \in LinksIn(P1) \cap want : ~\E d \in Owners(C, L, p) : P1[p].to = Target(prefix, d, p)},
                foreign_lost_or_changed |-> {p \in Foreign(P0) : p \notin DOMAIN P1 \/ P1[p] # P0[p]},
                foreign_new |-> Foreign(P1) \ Foreign(P0),
                dirs_extra |-> DirsIn(P1) \ UNION {Ancestors(p) : p \in want \cup Foreign(P0)},
                dirs_missing |-> UNION {Ancestors(p) : p \in want \cup Foreign(P0)} \ DirsIn(P1)]) \o
       Finding("resolves", unresolved # {}, unresolved) \o
       Finding("idempotent", o.again /\ P1 # P0, [gone |-> DOMAIN P0 \ DOMAIN P1, new |-> DOMAIN P1 \ DOMAIN P0,
                                                    changed |-> {p \in DOMAIN P0 \cap DOMAIN P1 : P0[p] # P1[p]}])

(* ---- steps ---- *)
IsFrameFinding(f) == Len(f.check) > 6 /\ SubSeq(f.check, 1, 6) = "frame-"
Record(fs) ==
    /\ l' = l + 1
    /\ diag' = SelectSeq(fs, LAMBDA f : ~IsFrameFinding(f))
    /\ pviol' = SelectSeq(fs, IsFrameFinding)
    /\ found' = found \o fs
    /\ UNCHANGED cfgl
    /\ ((l = Len(TraceLog)) => JsonSerialize(FoundFile, [found |-> found \o fs, lines |-> Len(TraceLog)]))

ResetStep ==
    /\ IsEvent("Reset")
    /\ l' = l + 1
    /\ cfgl' = l
    /\ diag' = <<>>
    /\ pviol' = <<>>
    /\ found' = found
    /\ ((l = Len(TraceLog)) => JsonSerialize(FoundFile, [found |-> found, lines |-> Len(TraceLog)]))
(* a step of the history (sync, scrub, fix, user edits, changes of the pool directory): only the new state matters *)
HistoryStep == (IsEvent("Step") \/ IsEvent("PoolEnv")) /\ Record(<<>>)
ListStep == IsEvent("List") /\ Record(ListCheck(Prev.state, Ev.out) \o Frame(Prev.state, Ev.state, FALSE))
DupStep == IsEvent("Dup") /\ Record(DupCheck(Prev.state, Ev.out) \o Frame(Prev.state, Ev.state, FALSE))
StatusStep == IsEvent("Status") /\ Record(StatusCheck(Prev.state, Ev.out) \o Frame(Prev.state, Ev.state, FALSE))
PoolStep == IsEvent("Pool") /\ Record(PoolCheck(Prev.state, Ev.state, Ev.out) \o Frame(Prev.state, Ev.state, TRUE))

Init == l = 1 /\ cfgl = 1 /\ diag = <<>> /\ pviol = <<>> /\ found = <<>>
Next == ResetStep \/ HistoryStep \/ ListStep \/ DupStep \/ StatusStep \/ PoolStep
Spec == Init /\ [][Next]_vars

(* ---- what TLC checks ---- *)
Conforms == diag = <<>>                    \* per step (use with -continue), or ...
NoFrameViolation == pviol = <<>>
NoFinding == l <= Len(TraceLog) \/ found = <<>>     \* ... once, at the end of the trace, with all findings
Accepted == TLCGet("stats").diameter = Len(TraceLog) + 1
(* error traces are printed through this alias: the accumulated findings are in the FOUND file, not in every state *)
Brief == [l |-> l, diag |-> diag, pviol |-> pviol, findings |-> Len(found)]
=============================================================================
