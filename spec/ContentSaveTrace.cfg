SPECIFICATION Spec
INVARIANT CopiesWhole
INVARIANT SomeCopyLoads
INVARIANT FirstIsNewest
INVARIANT EqualAfterSuccess
POSTCONDITION Accepted
CHECK_DEADLOCK FALSE
