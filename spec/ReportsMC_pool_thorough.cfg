SPECIFICATION Spec
CONSTANTS
  D = {"0", "1"}
  NP = 1
  BS = 1024
  VLen <- MCVLen
  NameOrder <- MCNames
  Kind = "pool"
  Small = FALSE
INVARIANT Sane
CHECK_DEADLOCK FALSE
