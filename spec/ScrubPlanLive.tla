--------------------------- MODULE ScrubPlanLive ---------------------------
(***************************************************************************)
(* C15, liveness: "repeated default scrubs eventually cover every stripe". *)
(*                                                                         *)
(* N stripes; the scrub is the DEFAULT one (plan -1 = one twelfth of the   *)
(* array, rounded up; age limit -1 = 10 days) selected by the              *)
(* transcription ScrubPlan!Transcribed.  Two actions:                      *)
(*   Tick  : one day passes;                                               *)
(*   Scrub : a default scrub at the present clock; a stripe verified       *)
(*           correct gets the present time and loses its bad mark          *)
(*           (scrub.c:594-613).                                            *)
(* Fairness: both happen again and again.                                  *)
(*                                                                         *)
(* Clock abstraction (exact, keeps the state space finite): the selection  *)
(* depends only on (i) the order of the stripes' times and (ii) whether a  *)
(* stripe is older than the age limit A.  The state therefore keeps ages   *)
(* (now - time, in days): exact below A, and for the stripes of age >= A   *)
(* only their order (the distinct ages >= A are renumbered A, A+1, ...).   *)
(* Tick adds one day to every age and renumbers.  This is a bisimulation   *)
(* quotient of the unbounded clock.                                        *)
(*                                                                         *)
(* PersistBad = TRUE models errors that are never repaired (the user does  *)
(* not run fix): a bad stripe stays bad and keeps its old time.            *)
(***************************************************************************)
EXTENDS ScrubPlan      \* with Day = 1

CONSTANTS N,            \* number of stripes (all used)
          PersistBad,   \* BOOLEAN
          Pct,          \* percentage of the repeated scrub: -1 = the default plan
          Mutant        \* "none", or a variant of ScrubPlan!MutantSet (to show that the property bites)

DefaultPct == -1
A == 10                 \* default age limit in days
Now == 1000             \* the info times handed to ScrubPlan are Now - age
P == 1..N

VARIABLES age, bad, last
vars == <<age, bad, last>>

Compress(a) == [i \in P |-> IF a[i] < A THEN a[i]
                            ELSE A + Cardinality({a[j] : j \in {k \in P : a[k] >= A /\ a[k] < a[i]}})]

Info == [i \in P |-> [p |-> TRUE, t |-> Now - age[i], bad |-> i \in bad, js |-> FALSE]]

Init == /\ age \in {a \in [P -> 0..(A + N - 1)] : Compress(a) = a}
        /\ bad \in (IF PersistBad THEN {S \in SUBSET P : Cardinality(S) <= 1} ELSE SUBSET P)
        /\ last = {}

Tick == /\ age' = Compress([i \in P |-> age[i] + 1])
        /\ last' = {}
        /\ UNCHANGED bad

Scrub == LET lim == Limits(Info, Pct, -1, Now)
             S == IF Mutant = "none" THEN EnabledSet(Info, "pct", lim) ELSE MutantSet(Info, "pct", lim, Mutant)
             ok == IF PersistBad THEN S \ bad ELSE S          \* verified correct
         IN /\ age' = Compress([i \in P |-> IF i \in ok THEN 0 ELSE age[i]])
            /\ bad' = bad \ ok
            /\ last' = S

Next == Tick \/ Scrub
Spec == Init /\ [][Next]_vars /\ WF_vars(Tick) /\ WF_vars(Scrub)

TypeOK == Compress(age) = age
(* every stripe is checked again and again *)
Covered == \A i \in P : []<>(i \in last)
(* safety companion: a scrub never selects a stripe younger than the age limit unless it is bad *)
YoungNotSelected == \A i \in last : i \in bad \/ age[i] = 0
=============================================================================
