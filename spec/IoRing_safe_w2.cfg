\* thorough tier, safety only (no liveness): 3 slots, 2 readers, 2 writers, 4 positions, <= 1 failing task (3.2 M distinct states)
SPECIFICATION Spec
CONSTANTS
  N = 3
  RD = 2
  RP = 0
  W = 2
  BlockStart = 0
  BlockMax = 5
  Enabled = {0, 1, 3, 4}
  SignalOutside = FALSE
  Spurious = TRUE
  ROutcomes <- OutSoftHard
  WOutcomes <- OutWSoft
  MaxFail = 1
  AllowSkip = TRUE
  AllowStop = TRUE
  AllowBail = FALSE
INVARIANTS TypeOK Asserts Ownership OnceInOrder Deterministic ErrorsAccountedR WaitSane
CHECK_DEADLOCK TRUE
