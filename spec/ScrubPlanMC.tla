---------------------------- MODULE ScrubPlanMC ----------------------------
(***************************************************************************)
(* TLC checks the transcription of scrub.c (ScrubPlan!Transcribed) against *)
(* the declarative statement (ScrubPlan!Allowed, and Progress) for ALL     *)
(* info arrays of up to MaxN positions and all arguments.                  *)
(* The info array is built one position per step (so every length 0..MaxN  *)
(* is a state, and the work is spread over the TLC workers); the invariant *)
(* quantifies over the arguments.                                          *)
(*  Mode "flags": cells absent | TimeSet x bad x justsynced, plans full /  *)
(*                new / bad.                                               *)
(*  Mode "pct"  : cells absent | TimeSet x bad (justsynced is irrelevant), *)
(*                percentage plans Pcts x Olders x Nows.                   *)
(***************************************************************************)
EXTENDS ScrubPlan

CONSTANTS MaxN, TimeSet, Pcts, Olders, Nows, Mode, Mutant

VARIABLE info

(* TLC configuration files cannot spell negative numbers: the argument sets with the defaults (-1) are defined here *)
McPcts == {-1, 0, 1, 10, 34, 50, 100}
McOlders == {-1, 0, 1, 2}

Absent == [p |-> FALSE, t |-> 0, bad |-> FALSE, js |-> FALSE]
Cells == {Absent} \cup [p : {TRUE}, t : TimeSet, bad : BOOLEAN, js : IF Mode = "flags" THEN BOOLEAN ELSE {FALSE}]

Init == info = <<>>
Next == Len(info) < MaxN /\ \E c \in Cells : info' = Append(info, c)
Spec == Init /\ [][Next]_info

SelOf(plan, lim) == IF Mutant = "none" THEN EnabledSet(info, plan, lim) ELSE MutantSet(info, plan, lim, Mutant)

FlagsOK == Mode = "flags" => \A plan \in {"full", "new", "bad"} : Allowed(SelOf(plan, NoLimits), info, plan, 0, 0, 0)

(* one pass per state: the time map once, limits and selection once per argument triple *)
PctOK == Mode = "pct" =>
    LET tm == TimeMap(info)
        n == Len(info)
    IN \A pct \in Pcts : \A older \in Olders : \A now \in Nows :
         LET lim == LimitsTm(tm, n, pct, older, now)
             S == SelOf("pct", lim)
             E == Eligible(info, older, now)
             q == CountLimit(n, pct)
             qe == IF q < Cardinality(E) THEN q ELSE Cardinality(E)
         IN /\ Allowed(S, info, "pct", pct, older, now)            \* the property statement
            /\ Progress(S, info, pct, older, now)                  \* what liveness needs
            \* the limits logged by scrub.c (-l count_limit / time_limit / last_limit) in declarative terms
            /\ lim.count_limit = qe
            /\ lim.count_limit > 0 => /\ lim.time_limit \in {info[i].t : i \in E}
                                      /\ lim.last_limit = lim.count_limit - NLess(info, lim.time_limit)
            /\ (E # {} /\ q > 0) => S # {}
=============================================================================
