\* exhaustive: 2 content copies, 2 chunks, 2 saves per command (sync: before and after the parity update)
CONSTANTS NCopies = 2  NChunks = 2  NSaves = 2  WriteFaults = TRUE  VerifyAll = TRUE  Guarded = TRUE
SPECIFICATION Spec
INVARIANT TypeOK
INVARIANT CopiesWhole
INVARIANT SomeCopyLoads
INVARIANT FirstIsNewest
INVARIANT EqualAfterSuccess
CHECK_DEADLOCK FALSE
