SPECIFICATION Spec
CONSTANTS
  D = {"0", "1"}
  NP = 2
  Copies = 2
  QMax = 2
  Pending = "adds"
  AutosaveMode = "first"
  FaultMode = "none"
  Mono = FALSE
CHECK_DEADLOCK FALSE
INVARIANT CrashConsistent
