SPECIFICATION Spec
CONSTANTS
  D = {"0", "1"}
  NP = 2
  Names = {"A", "B"}
  MaxSteps = 5
  MaxDamage = 2
  MaxStamp = 4
  ScriptId = "none"
  GoalId = "none"
INVARIANT NoOtherViolation
VIEW View
CHECK_DEADLOCK FALSE
