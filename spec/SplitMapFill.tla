---------------------------- MODULE SplitMapFill ----------------------------
(***************************************************************************)
(* C17, auxiliary: the growth loop of cmdline/parity.c:374-489             *)
(* (parity_handle_fill) as a state machine, one action per loop iteration, *)
(* checked against the closed form SplitMap!GrowTo used by                 *)
(* SplitMap!Chsize.                                                        *)
(*                                                                         *)
(*   base = st_size & ~mask; delta = size - base;                          *)
(*   while (delta != 0) {                                                  *)
(*       run = hbit(delta); delta &= ~run;                                 *)
(*       if (grow(base, base + run) fails)  delta = (run - 1) & ~mask;     *)
(*       else                               base += run;                   *)
(*   }                                                                     *)
(*   shrink(base)                                                          *)
(* grow(.., size) fails iff limit != 0 and size > limit                    *)
(* (parity_handle_grow, "simulate a failure for testing limits"; a full    *)
(* disk behaves the same way).                                             *)
(*                                                                         *)
(* Checked for every block size B in {1, 2, 4, 8} units, every present     *)
(* file size f0 (aligned or not), every aligned target, every limit        *)
(* (aligned or not, 0 = none).                                             *)
(***************************************************************************)
EXTENDS Integers, TLC

CONSTANTS MaxSize,      \* sizes and limits range over 0..MaxSize
          Blocks        \* set of block sizes (powers of two)

VARIABLES B, f0, size, limit, base, delta, pc
vars == <<B, f0, size, limit, base, delta, pc>>

Pow2 == {1, 2, 4, 8, 16, 32, 64, 128}
HBit(v) == CHOOSE r \in Pow2 : r <= v /\ v < 2 * r
Align(x, b) == x - (x % b)

(* SplitMap!GrowTo *)
GrowTo(b, from, to, lim) == IF lim = 0 \/ to <= lim THEN to
                            ELSE IF Align(lim, b) > from THEN Align(lim, b) ELSE from

Init == /\ B \in Blocks
        /\ f0 \in 0..MaxSize
        /\ size \in {x \in 0..MaxSize : x % B = 0 /\ x > f0}        \* parity_handle_chsize calls fill only if st_size < size
        /\ limit \in 0..(MaxSize + 1)
        /\ base = Align(f0, B)
        /\ delta = size - Align(f0, B)
        /\ pc = "loop"

Iter == /\ pc = "loop"
        /\ IF delta = 0 THEN pc' = "done" /\ UNCHANGED <<base, delta>>
           ELSE LET run == HBit(delta)
                    fails == limit # 0 /\ base + run > limit
                IN /\ pc' = "loop"
                   /\ IF fails THEN delta' = Align(run - 1, B) /\ base' = base
                      ELSE delta' = delta - run /\ base' = base + run
        /\ UNCHANGED <<B, f0, size, limit>>

Spec == Init /\ [][Iter]_vars /\ WF_vars(Iter)

(* the file never exceeds the limit by growing, and ends at the closed form, block aligned *)
Safe == base % B = 0 /\ base <= size /\ (limit # 0 /\ base > Align(f0, B) => base <= limit)
Result == pc = "done" => base = GrowTo(B, Align(f0, B), size, limit)
Terminates == <>(pc = "done")
=============================================================================
