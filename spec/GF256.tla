------------------------------- MODULE GF256 -------------------------------
\* The field GF(2^8) with polynomial x^8+x^4+x^3+x^2+1 (0x11d) used by raid/*.c, defined WITHOUT
\* recursion, plus witness tables (exp, log, inv, mul) that TLC checks against the definition.
\*
\* Definition  : XT (multiply by x, reduce), MulDef (eight unrolled shift-and-add steps).
\* Witnesses   : witness_gf.json (produced by harness/py/gfwitness.py from first principles; who produced
\*               them is irrelevant - a wrong entry makes a check below fail).  JSON arrays are 1-based
\*               sequences: index i+1 holds the entry for i.
\* How checked : the cheap equations are ASSUMEs; the expensive ones (65 536 products, the triples of the
\*               field axioms) are split into "jobs".  A job is a TLC state, the check is the invariant
\*               JobInv, so the 16 TLC workers evaluate jobs in parallel (TLC evaluates ASSUME on one thread).
\*               Jobs are triples <<kind, a, b>>.
EXTENDS Naturals, Sequences, FiniteSets, Bitwise, Json, TLC

CONSTANT Tier            \* "quick" or "thorough": size of the triple sets for the field axioms

VARIABLES job, phase

Byte == 0..255

-----------------------------------------------------------------------------
\* Definition of the field (nothing below this block defines arithmetic again)

\* a * x  modulo 0x11d :  (a << 1) xor (0x11d if bit 7 of a was set), i.e. low byte xor 0x1d
XT(a) == IF a >= 128 THEN ((a - 128) * 2) ^^ 29 ELSE a * 2

Sel(bit, v) == IF bit = 1 THEN v ELSE 0

\* a * b by shift-and-add, eight unrolled steps
MulDef(a, b) ==
    LET a0 == a
        a1 == XT(a0)
        a2 == XT(a1)
        a3 == XT(a2)
        a4 == XT(a3)
        a5 == XT(a4)
        a6 == XT(a5)
        a7 == XT(a6)
        b0 == b % 2
        b1 == (b \div 2) % 2
        b2 == (b \div 4) % 2
        b3 == (b \div 8) % 2
        b4 == (b \div 16) % 2
        b5 == (b \div 32) % 2
        b6 == (b \div 64) % 2
        b7 == (b \div 128) % 2
    IN  (((((((Sel(b0, a0) ^^ Sel(b1, a1)) ^^ Sel(b2, a2)) ^^ Sel(b3, a3)) ^^ Sel(b4, a4))
            ^^ Sel(b5, a5)) ^^ Sel(b6, a6)) ^^ Sel(b7, a7))

\* addition is xor
Add(a, b) == a ^^ b

-----------------------------------------------------------------------------
\* Witness tables

WGF == JsonDeserialize("witness_gf.json")
ExpT == WGF.exp        \* ExpT[i+1] = 2^i,  i in 0..255  (2^255 = 1)
LogT == WGF.log        \* LogT[a+1] = log2 a, a in 1..255 ; LogT[1] (log 0) is a don't-care stored as 0
InvT == WGF.inv        \* InvT[a+1] = 1/a ; InvT[1] := 0 (same convention as raid_gfinv[0])
MulT == WGF.mul        \* MulT[a+1][b+1] = a*b

Exp(i) == ExpT[i + 1]
Log(a) == LogT[a + 1]
Inv(a) == InvT[a + 1]
Mul(a, b) == MulT[a + 1][b + 1]
MulEL(a, b) == IF a = 0 \/ b = 0 THEN 0 ELSE Exp((Log(a) + Log(b)) % 255)
Div(a, b) == Mul(a, Inv(b))

-----------------------------------------------------------------------------
\* Cheap checks (single thread, < 1 s)

ShapeOK ==
    /\ Len(ExpT) = 256 /\ Len(LogT) = 256 /\ Len(InvT) = 256 /\ Len(MulT) = 256
    /\ \A i \in 1..256 : ExpT[i] \in Byte /\ LogT[i] \in Byte /\ InvT[i] \in Byte
    /\ \A i \in 1..256 : (Len(MulT[i]) = 256 /\ \A k \in 1..256 : MulT[i][k] \in Byte)

XTOK ==     \* the bit trick equals "shift, then subtract the polynomial if degree 8 appeared"
    \A a \in Byte : XT(a) = (IF 2 * a >= 256 THEN (2 * a) ^^ 285 ELSE 2 * a) /\ XT(a) \in Byte

ExpOK ==
    /\ Exp(0) = 1
    /\ \A i \in 0..254 : Exp(i + 1) = XT(Exp(i))
    /\ Exp(255) = 1
    /\ \A i \in 1..254 : Exp(i) # 1                 \* 2 generates the multiplicative group

LogOK ==
    /\ Log(0) = 0
    /\ \A a \in 1..255 : (Log(a) \in 0..254 /\ Exp(Log(a)) = a)

InvOK ==
    /\ Inv(0) = 0
    /\ \A a \in 1..255 : (Inv(a) \in 1..255 /\ MulDef(a, Inv(a)) = 1)

ASSUME ShapeOK
ASSUME XTOK
ASSUME ExpOK
ASSUME LogOK
ASSUME InvOK

-----------------------------------------------------------------------------
\* Expensive checks, as jobs

\* row a of the multiplication table equals the definition, and the exp/log form agrees
MulRowOK(a) ==
    \A b \in Byte : (Mul(a, b) = MulDef(a, b) /\ Mul(a, b) = MulEL(a, b))

\* sanity of the definition itself: commutative, unit, zero, inverse, on the whole row
RowSanityOK(a) ==
    /\ \A b \in Byte : MulDef(a, b) = MulDef(b, a)
    /\ MulDef(a, 1) = a /\ MulDef(a, 0) = 0
    /\ (a # 0 => Mul(a, Inv(a)) = 1)

\* generating subset for the triples of the quick tier: 0, 1, the generator and its inverse, the reduction
\* constant, top bit, all ones, and a few dense values
QuickSet == {0, 1, 2, 3, 4, 29, 71, 128, 142, 173, 216, 244, 245, 254, 255, 90}
TripleSet == IF Tier = "thorough" THEN Byte ELSE QuickSet

\* associativity and distributivity for all triples (a, b, c) with b, c in TripleSet
AxiomsOK(a) ==
    \A b \in TripleSet : \A c \in TripleSet :
        /\ Mul(Mul(a, b), c) = Mul(a, Mul(b, c))
        /\ Mul(a, b ^^ c) = (Mul(a, b) ^^ Mul(a, c))

GFJobs == {<<"mulrow", a, 0>> : a \in Byte} \cup {<<"sanity", a, 0>> : a \in Byte}
              \cup {<<"axioms", a, 0>> : a \in Byte}

GFJobOK(j) ==
    CASE j[1] = "mulrow" -> MulRowOK(j[2])
      [] j[1] = "sanity" -> RowSanityOK(j[2])
      [] j[1] = "axioms" -> AxiomsOK(j[2])
      [] OTHER -> FALSE

\* the job machine: one initial state per job, one step that "runs" it
JobStep == \/ (phase = 0 /\ phase' = 1 /\ job' = job)
           \/ (phase = 1 /\ UNCHANGED <<job, phase>>)

GFInit == phase = 0 /\ job \in GFJobs
GFJobInv == (phase = 1) => GFJobOK(job)

=============================================================================
