\* thorough tier: lists of <= 2 rules over the whole pool, of 3 rules over the medium pool
\* (24 patterns), of 4 rules over the small pool (12 patterns); with nohidden: lists of <= 2 rules
CONSTANTS
  MaxFull = 2
  MaxMedium = 3
  MaxSmall = 4
  MaxHidden = 2
INIT Init
NEXT Next
INVARIANT Checked
