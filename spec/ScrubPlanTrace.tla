--------------------------- MODULE ScrubPlanTrace ---------------------------
(***************************************************************************)
(* C15: validation of what the real `snapraid scrub` did (DESIGN.md 5 (B)).*)
(*                                                                         *)
(* The harness (harness/py/props/C15.py) builds real arrays whose stripes  *)
(* have chosen last-check times, bad marks, unsynced files, runs scrub     *)
(* with every kind of plan under a frozen clock, and logs one ndjson line  *)
(* per step with the full projected state after it (vocabulary of          *)
(* recorder.Recorder.state) and, for scrub, what was OBSERVED from outside:*)
(*   obs.read   : positions whose parity block was read (LD_PRELOAD shim), *)
(*   obs.limits : the -l tags count_limit / time_limit / last_limit,       *)
(*   out        : exit class, error: / parity_error: tags.                 *)
(* TLC checks every scrub step:                                            *)
(*   selection : obs.read = ScrubPlan!Transcribed (what scrub.c is read to *)
(*               do) and obs.read satisfies ScrubPlan!Allowed / Progress   *)
(*               (what the property states);                               *)
(*   books     : the content after = Array!ScrubResult for the observed    *)
(*               selection (time refreshed and marks cleared only for      *)
(*               stripes verified correct, bad only for silent errors,     *)
(*               unsynced differences never marked), re-stated             *)
(*               declaratively in HonestBooks from ground truth;           *)
(*   frame     : data and parity byte-identical before / after.            *)
(* Steps that are not scrubs ("Any": edits, sync, fix, damage) only move   *)
(* the state: they belong to other properties.                             *)
(***************************************************************************)
EXTENDS Integers, Sequences, FiniteSets, TLC, Json, IOUtils

TraceFile == IF "TRACE" \in DOMAIN IOEnv THEN IOEnv.TRACE ELSE "trace.ndjson"
TraceLog == ndJsonDeserialize(TraceFile)
Hdr == TraceLog[1]

D == {Hdr.D[i] : i \in 1..Len(Hdr.D)}
NP == Hdr.NP
BS == Hdr.BS
VLen == Hdr.vlen
NameOrder == Hdr.names

INSTANCE Array
SP == INSTANCE ScrubPlan WITH Day <- 86400

VARIABLES l, fs, C, par, sha, diag
vars == <<l, fs, C, par, sha, diag>>

LoggedC(s) == [cf |-> s.cf, del |-> s.del, info |-> s.info]
ToSet(s) == {s[i] : i \in 1..Len(s)}
PairSet(s) == {<<s[i][1], s[i][2]>> : i \in 1..Len(s)}

(* what the files hold now at position p (zero where no file block is mapped or the file is gone) *)
FsVec(c, f, p) == [d \in D |-> LET b == BlockAtSlow(c, d, p)
                               IN IF HasFile(b) /\ b.n \in DOMAIN f[d] /\ b.i <= Len(f[d][b.n].b) THEN f[d][b.n].b[b.i] ELSE "Z"]
(* logged parity cell = list of candidate vectors whose parity equals the bytes on disk *)
CellOf(cands, want) ==
    IF Len(cands) = 0 THEN JunkCell
    ELSE IF \E i \in 1..Len(cands) : cands[i] = want THEN [k |-> "V", w |-> want]
    ELSE [k |-> "V", w |-> cands[1]]
LoggedPar(s) == [lv \in Levels |-> [q \in 1..Len(s.par[lv]) |-> CellOf(s.par[lv][q], FsVec(LoggedC(s), s.fs, q - 1))]]

Init ==
    /\ l = 2
    /\ fs = Hdr.state.fs
    /\ C = LoggedC(Hdr.state)
    /\ par = LoggedPar(Hdr.state)
    /\ sha = Hdr.state.sha
    /\ diag = <<>>

Ev == TraceLog[l]
IsEvent(e) == l <= Len(TraceLog) /\ TraceLog[l].e = e

Follow(s) ==
    /\ l' = l + 1
    /\ fs' = s.fs
    /\ C' = LoggedC(s)
    /\ par' = LoggedPar(s)
    /\ sha' = s.sha

AnyStep == (IsEvent("Any") \/ IsEvent("Reset")) /\ Follow(Ev.state) /\ diag' = <<>>

(* the rehash command schedules the hash migration: it marks the stripes and keeps the books as they are - the time of the last
   check, the bad mark and the "never scrubbed since its sync" flag of every stripe (scrub -p new and the age plans read them) *)
BooksKept(old, new) == /\ Len(old.info) = Len(new.info)
                       /\ \A q \in 1..Len(old.info) :
                             /\ old.info[q].p = new.info[q].p
                             /\ old.info[q].p => /\ old.info[q].t = new.info[q].t
                                                 /\ old.info[q].bad = new.info[q].bad
                                                 /\ old.info[q].js = new.info[q].js
RehashStep == /\ IsEvent("Rehash")
              /\ Follow(Ev.state)
              /\ diag' = IF Ev.out.rc = 0 /\ ~BooksKept(C, LoggedC(Ev.state))
                         THEN <<"Rehash", l, "the rehash command changed the books (time / bad / never-scrubbed flag of a stripe)">> ELSE <<>>

(***************************************************************************)
(* Ground truth about one stripe, independent of the model of scrub.       *)
(***************************************************************************)
Stamped(c, f, d, n) == n \in DOMAIN f[d] /\ SameStamp(f[d][n], c.cf[d][n])
(* the block of disk d at p cannot be read in full, or differs from its recorded hash *)
Unreadable(c, f, d, b) == ~CheckRead(c, f, d, b).ok
Mismatch(c, f, d, b) == /\ ~Unreadable(c, f, d, b) /\ UpdatedHash(b)
                        /\ HashOf(f[d][b.n].b[b.i], BlkLen(c.cf[d][b.n].sz, b.i)) # b.h
(* disks whose block at p is not in sync with the parity as far as the content file and the time stamps tell *)
UnsyncedAt(c, f, p) == {d \in D : LET b == BlockAtSlow(c, d, p)
                                  IN InvalidParity(b) \/ (HasFile(b) /\ b.n \in DOMAIN f[d] /\ ~Stamped(c, f, d, b.n))}
FilesAt(c, p) == {d \in D : HasFile(BlockAtSlow(c, d, p))}
DataFine(c, f, p) == \A d \in FilesAt(c, p) : LET b == BlockAtSlow(c, d, p) IN ~Unreadable(c, f, d, b) /\ ~Mismatch(c, f, d, b)
ParityFine(c, f, pr, p) == \A lv \in Levels : p + 1 <= Len(pr[lv]) /\ pr[lv][p + 1].k = "V" /\ pr[lv][p + 1].w = FsVec(c, f, p)
(* a silent error: a synced file (same size and time as recorded) whose block differs from its hash, or, with all
   data verified and every block of the stripe synced, a parity block that is not the parity of the data *)
SilentAt(c, f, pr, p) ==
    \/ \E d \in FilesAt(c, p) \ UnsyncedAt(c, f, p) : Mismatch(c, f, d, BlockAtSlow(c, d, p))
    \/ /\ DataFine(c, f, p) /\ UnsyncedAt(c, f, p) = {} /\ ~ParityFine(c, f, pr, p)
       /\ \A lv \in Levels : p + 1 <= Len(pr[lv])            \* a parity file that is too short is a plain error
Renewed(now) == [p |-> TRUE, t |-> T8(now), bad |-> FALSE, js |-> FALSE]

(* "refreshes the check time and clears marks only for stripes it verified correct, marks bad only stripes with
   silent [or I/O] errors, never marks differences caused by files changed since the last sync" *)
HonestBooks(c, f, pr, sel, now, post) ==
    /\ Len(post) = Len(c.info)
    /\ \A q \in 1..Len(post) :
         LET p == q - 1
             pre == c.info[q]
         IN IF q \notin sel THEN post[q] = pre
            ELSE /\ post[q] \in {pre, [pre EXCEPT !.bad = TRUE], Renewed(now)}
                 /\ (post[q] = Renewed(now) /\ pre # Renewed(now)) => (DataFine(c, f, p) /\ ParityFine(c, f, pr, p))
                 /\ (DataFine(c, f, p) /\ ParityFine(c, f, pr, p)) => post[q] = Renewed(now)
                 /\ (post[q].bad /\ ~pre.bad) => SilentAt(c, f, pr, p)
                 /\ SilentAt(c, f, pr, p) => post[q].bad
                 /\ (post[q] # Renewed(now)) => (post[q].t = pre.t /\ post[q].js = pre.js)

ScrubStep ==
    /\ IsEvent("Scrub")
    /\ LET a == Ev.args
           s == Ev.state
           present == ToSet(a.present)
           runs == present = Levels /\ SP!Used(C.info) # {}           \* otherwise scrub refuses to start
           obs == {p + 1 : p \in ToSet(Ev.obs.read)}                  \* 1-based like the info sequence
           pred == SP!Transcribed(C.info, a.plan, a.pct, a.older, a.now)
           okSel == obs = (IF runs THEN pred ELSE {})
           okDecl == runs => /\ SP!Allowed(obs, C.info, a.plan, a.pct, a.older, a.now)
                             /\ a.plan = "pct" => SP!Progress(obs, C.info, a.pct, a.older, a.now)
           lim == SP!Limits(C.info, a.pct, a.older, a.now)
           okLim == (runs /\ a.plan = "pct") =>
                        /\ "count_limit" \in DOMAIN Ev.obs.limits
                        /\ Ev.obs.limits.count_limit = lim.count_limit
                        /\ Ev.obs.limits.last_limit = lim.last_limit
                        /\ Ev.obs.limits.time_limit = lim.time_limit
           r == ScrubResult(C, fs, par, {q - 1 : q \in obs}, a.now, present)
           okC == r.C = LoggedC(s)
           okO == r.out.exit = Ev.out.exit /\ r.out.derr = PairSet(Ev.out.derr) /\ r.out.perr = PairSet(Ev.out.perr)
           okBooks == HonestBooks(C, fs, par, obs, a.now, s.info)
           okFrame == s.fs = fs /\ s.sha.f = sha.f /\ s.sha.p = sha.p /\ s.cf = C.cf /\ s.del = C.del
       IN /\ Follow(s)
          /\ diag' = IF okSel /\ okDecl /\ okLim /\ okC /\ okO /\ okBooks /\ okFrame THEN <<>>
                     ELSE <<"Scrub", l, [selection |-> okSel, declarative |-> okDecl, limits |-> okLim, content |-> okC,
                                         out |-> okO, books |-> okBooks, frame |-> okFrame],
                            [observed |-> obs, transcribed |-> pred, limits |-> lim, logged_limits |-> Ev.obs.limits],
                            IF ~okC THEN <<r.C.info, s.info>> ELSE <<>>, r.out, Ev.out>>

Next == AnyStep \/ RehashStep \/ ScrubStep
Spec == Init /\ [][Next]_vars

Conforms == diag = <<>>
Accepted == TLCGet("stats").diameter = Len(TraceLog)
=============================================================================
