\* the whole command set (rehash, scrub, sync -R, filtered fixes) on top of ArrayMC_small; simulated (the state space is large)
SPECIFICATION Spec
CONSTANTS
  D = {"0", "1"}
  NP = 2
  Names = {"A", "B"}
  MaxSteps = 9
  MaxDamage = 2
  MaxStamp = 5
  ScriptId = "none"
  GoalId = "none"
  Ext <- ExtOn
INVARIANT NoOtherViolation
CHECK_DEADLOCK FALSE
