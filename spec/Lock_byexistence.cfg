SPECIFICATION Spec
CONSTANTS
  Procs = {p1, p2}
  NCopies = 2
  ByExistence = TRUE
INVARIANT MutualExclusion
CHECK_DEADLOCK FALSE
