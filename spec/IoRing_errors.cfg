\* C08 / F4: is every failed task handed to the caller?  ErrorsAccountedR (readers) holds;
\* ErrorsAccountedW (parity writers) is EXPECTED TO FAIL on the code as it is: the counters of io_writer_step
\* are collected only by the next io_write_next, so the errors of the last queued stripes are lost
\* (and mono mode never counts them: run the same with N = 1).  Not part of the C13 verdict.
SPECIFICATION Spec
CONSTANTS
  N = 3
  RD = 1
  RP = 0
  W = 1
  BlockStart = 0
  BlockMax = 3
  Enabled = {0, 1, 2}
  SignalOutside = FALSE
  Spurious = FALSE
  ROutcomes <- OutDone
  WOutcomes <- OutWSoftHard
  MaxFail = 1
  AllowSkip = FALSE
  AllowStop = FALSE
  AllowBail = FALSE
INVARIANTS TypeOK ErrorsAccountedR ErrorsAccountedW
CHECK_DEADLOCK TRUE
