SPECIFICATION Spec
CONSTANTS
  Day = 1
  MaxN = 5
  TimeSet = {1, 2, 3}
  Pcts <- McPcts
  Olders <- McOlders
  Nows = {3, 4, 13}
  Mode = "pct"
  Mutant = "none"




INVARIANT PctOK
CHECK_DEADLOCK FALSE
