----------------------------- MODULE ArrayTrace -----------------------------
(***************************************************************************)
(* Trace validation of command-level traces recorded from the real binary  *)
(* (DESIGN.md section 5 (B1)).  Every line carries the full projected      *)
(* state after the action.  The specification is deterministic given the   *)
(* logged arguments, so each step is checked as                            *)
(*        logged_post = Command(real_pre, args)                            *)
(* and the trace always continues from the *real* state.  A mismatch is    *)
(* recorded in `diag` (INVARIANT Conforms), so that TLC's error trace      *)
(* shows predicted and observed values.  The state invariants of the       *)
(* properties are evaluated on every real state of the trace.              *)
(***************************************************************************)
EXTENDS Integers, Sequences, FiniteSets, TLC, Json, IOUtils

TraceFile == IF "TRACE" \in DOMAIN IOEnv THEN IOEnv.TRACE ELSE "trace.ndjson"
TraceLog == ndJsonDeserialize(TraceFile)
Hdr == TraceLog[1]

D == {Hdr.D[i] : i \in 1..Len(Hdr.D)}
NP == Hdr.NP
BS == Hdr.BS
VLen == Hdr.vlen
NameOrder == Hdr.names
Reduced == "hs" \in DOMAIN Hdr /\ Hdr.hs # 16      \* hash size below 16 bytes (hashsize option)

INSTANCE Array

VARIABLES l, fs, C, par, diag, clean, snap, dmg, ghost, sha, pviol, afterfix, lks
vars == <<l, fs, C, par, diag, clean, snap, dmg, ghost, sha, pviol, afterfix, lks>>

(* ---- conversion of logged state ---- *)
LoggedC(s) == [cf |-> s.cf, del |-> s.del, info |-> s.info]

(* logged parity cell: [c |-> <<vector, ...>>] (candidates) ; vector = record over D *)
CellOf(cands, prev) ==
    IF Len(cands) = 0 THEN JunkCell
    ELSE IF prev.k = "V" /\ \E i \in 1..Len(cands) : cands[i] = prev.w THEN prev
    ELSE [k |-> "V", w |-> cands[1]]
LoggedPar(s, prev) ==
    [lv \in Levels |-> [q \in 1..Len(s.par[lv]) |->
        CellOf(s.par[lv][q], IF q <= Len(prev[lv]) THEN prev[lv][q] ELSE JunkCell)]]

(* does the predicted parity agree with what is on disk?  "J" in the model = unspecified *)
ParAgrees(pred, s) ==
    \A lv \in Levels :
       /\ Len(pred[lv]) = Len(s.par[lv])
       /\ \A q \in 1..Len(pred[lv]) :
             pred[lv][q].k = "V" => \E i \in 1..Len(s.par[lv][q]) : s.par[lv][q][i] = pred[lv][q].w
(* the state to continue from: the predicted vector where it is among the candidates, the logged one otherwise *)
ParMerge(pred, s) ==
    [lv \in Levels |-> [q \in 1..Len(s.par[lv]) |->
        CellOf(s.par[lv][q], IF q <= Len(pred[lv]) THEN pred[lv][q] ELSE JunkCell)]]

SameVal(a, b) == a = b \/ (IsJunkVal(a) /\ IsJunkVal(b))
SameFile(f, g) == f.sz = g.sz /\ (f.mt = g.mt \/ f.mt = AnyMt) /\ Len(f.b) = Len(g.b) /\ \A i \in 1..Len(f.b) : SameVal(f.b[i], g.b[i])
SameFs(a, b) == \A d \in D : DOMAIN a[d] = DOMAIN b[d] /\ \A n \in DOMAIN a[d] : IsUnrec(n) \/ SameFile(a[d][n], b[d][n])

ToSet(s) == {s[i] : i \in 1..Len(s)}
PairSet(s) == {<<s[i][1], s[i][2]>> : i \in 1..Len(s)}
PresentOf(a) == ToSet(a.present)

(* differences between a predicted and an observed content state, for the diagnosis *)
DiffC(p, o) ==
    [files |-> {<<d, n, IF n \in DOMAIN p.cf[d] THEN p.cf[d][n] ELSE "absent", IF n \in DOMAIN o.cf[d] THEN o.cf[d][n] ELSE "absent">> :
                  <<d, n>> \in {x \in UNION {{<<d, n>> : n \in DOMAIN p.cf[d] \cup DOMAIN o.cf[d]} : d \in D} :
                      ~(x[2] \in DOMAIN p.cf[x[1]] /\ x[2] \in DOMAIN o.cf[x[1]] /\ p.cf[x[1]][x[2]] = o.cf[x[1]][x[2]])}},
     del |-> {<<d, p.del[d], o.del[d]>> : d \in {e \in D : p.del[e] # o.del[e]}},
     info |-> IF p.info = o.info THEN <<>> ELSE <<p.info, o.info>>]

(* ---- properties on real states ---- *)
CleanSynced(c, f) == ~ParityInvalid(c) /\ NoDifference(c, f)


(***************************************************************************)
(* Properties evaluated on the real (projected) states and steps.          *)
(* pviol collects <<property id, signature, details>> for the last step.   *)
(***************************************************************************)
AllFiles(c) == UNION {{<<d, n>> : n \in DOMAIN c.cf[d]} : d \in D}

(* ground truth of damage, independent of the model of check/scrub *)
BlockWrong(c, f, d, n, i) ==
    LET b == c.cf[d][n].bl[i]
    IN \/ n \notin DOMAIN f[d]
       \/ i > Len(f[d][n].b)
       \/ (i = Len(f[d][n].b) /\ BlkLen(f[d][n].sz, i) < BlkLen(c.cf[d][n].sz, i))
       \/ (b.st \in {"BLK", "REP"} /\ HashOf(f[d][n].b[i], BlkLen(c.cf[d][n].sz, i)) # b.h)
TrueDataErrors(c, f) == {<<c.cf[x[1]][x[2]].bl[i].pos, x[1]>> :
                            <<x, i>> \in {y \in AllFiles(c) \X (1..64) : y[2] <= Len(c.cf[y[1][1]][y[1][2]].bl)
                                                /\ BlockWrong(c, f, y[1][1], y[1][2], y[2])}}
ParWrong(c, pr, p, lv) == ~(p + 1 <= Len(pr[lv]) /\ pr[lv][p + 1].k = "V" /\ pr[lv][p + 1].w = StripeVec(c, p))
DamagePerStripe(c, f, pr, p) ==
    Cardinality({d \in D : <<p, d>> \in TrueDataErrors(c, f)}) + Cardinality({lv \in Levels : ParWrong(c, pr, p, lv)})
WithinBounds(c, f, pr) == \A p \in 0..(AllocatedMax(c) - 1) :
                             (\E d \in D : HasFile(BlockAtSlow(c, d, p))) => DamagePerStripe(c, f, pr, p) <= NP

(* a recorded file whose bytes and size are the recorded ones while its time stamp is not: for snapraid that is a file the
   user has touched, not damage (fix leaves it alone and the next sync takes it as changed); histories in which this
   happens (a time-stamp only change, or the leftover of a fix -b that did not reach the last block of a file:
   observation O2) are outside the hypothesis of C01 *)
StampOnlyChange(c, f) ==
    \E x \in AllFiles(c) : /\ x[2] \in DOMAIN f[x[1]]
                            /\ f[x[1]][x[2]].mt # c.cf[x[1]][x[2]].mt
                            /\ f[x[1]][x[2]].sz = c.cf[x[1]][x[2]].sz
                            /\ Len(f[x[1]][x[2]].b) = Len(c.cf[x[1]][x[2]].bl)
                            /\ \A i \in 1..Len(c.cf[x[1]][x[2]].bl) : f[x[1]][x[2]].b[i] = c.cf[x[1]][x[2]].bl[i].h

(* the version of block i of a recorded file that fix must reproduce: the one whose hash is recorded, or for a
   block without a hash the content the file had when the record was made (ghost) *)
WantBlock(c, g, d, n, i) == LET b == c.cf[d][n].bl[i]
                            IN IF b.st \in {"BLK", "REP"} THEN b.h
                               ELSE IF n \in DOMAIN g[d] /\ i <= Len(g[d][n]) THEN g[d][n][i] ELSE "?"

MtimeCollision(c, d, n) == \E m \in DOMAIN c.cf[d] : m # n /\ c.cf[d][m].sz = c.cf[d][n].sz /\ c.cf[d][m].mt = c.cf[d][n].mt

(* C11: links and empty directories (present: lk, dr; recorded: clk, cdr) *)
LinksOf(s) == IF "lk" \in DOMAIN s THEN [lk |-> s.lk, dr |-> s.dr, clk |-> s.clk, cdr |-> s.cdr, dra |-> s.dra]
              ELSE [lk |-> [d \in D |-> <<>>], dr |-> [d \in D |-> <<>>], clk |-> [d \in D |-> <<>>], cdr |-> [d \in D |-> <<>>]]
LinksSynced(k) == \A d \in D : k.lk[d] = k.clk[d]
(* recorded links / empty directories that are missing or different on the disks (check and fix report and repair them) *)
(* check, fix and scrub open files by path: a name that the scan would class as a hard link of another name (same inode,
   later in scan order) still is a file with that content *)
PathFs(f, k) ==
    [d \in D |-> LET hn == {n \in DOMAIN k.lk[d] : k.lk[d][n][1] = "hard" /\ k.lk[d][n][2] \in DOMAIN f[d]}
                 IN Eager([n \in DOMAIN f[d] \cup hn |-> IF n \in DOMAIN f[d] THEN f[d][n] ELSE f[d][k.lk[d][n][2]]])]
(* check and fix look at a recorded hard link through the inodes: both names must be regular files that share an inode
   (check.c:1598-1650); in the projection the names of an inode group are one file (the first in scan order) and hard links to it *)
RegName(k, f, d, x) == x \in DOMAIN f[d] \/ (x \in DOMAIN k.lk[d] /\ k.lk[d][x][1] = "hard")
RepOf(k, d, x) == IF x \in DOMAIN k.lk[d] /\ k.lk[d][x][1] = "hard" THEN k.lk[d][x][2] ELSE x
LinkOK(k, f, d, n) ==
    LET r == k.clk[d][n]
    IN IF r[1] = "hard" THEN RegName(k, f, d, n) /\ RegName(k, f, d, r[2]) /\ RepOf(k, d, n) = RepOf(k, d, r[2])
       ELSE n \in DOMAIN k.lk[d] /\ k.lk[d][n] = r
AllDirs(k, d) == ToSet(k.dr[d]) \cup (IF "dra" \in DOMAIN k THEN ToSet(k.dra[d]) ELSE {})
LinkErrorsF(k, f) == \E d \in D : (\E n \in DOMAIN k.clk[d] : ~LinkOK(k, f, d, n))
                                  \/ (\E i \in 1..Len(k.cdr[d]) : k.cdr[d][i] \notin AllDirs(k, d))

(* C01: complete recovery *)
C01_Fix(c, f0, pr0, s, o) ==
    LET bad == {x \in AllFiles(c) :
                  \/ x[2] \notin DOMAIN s.fs[x[1]]
                  \/ s.fs[x[1]][x[2]].sz # c.cf[x[1]][x[2]].sz
                  \/ Len(s.fs[x[1]][x[2]].b) # Len(c.cf[x[1]][x[2]].bl)
                  \/ \E i \in 1..Len(c.cf[x[1]][x[2]].bl) : s.fs[x[1]][x[2]].b[i] # c.cf[x[1]][x[2]].bl[i].h
                  \/ (s.fs[x[1]][x[2]].mt # c.cf[x[1]][x[2]].mt /\ ~MtimeCollision(c, x[1], x[2]))}
    IN IF bad # {} THEN <<<<"C01", "fix-did-not-restore", bad>>>>
       ELSE IF "lk" \in DOMAIN s /\ LinkErrorsF(LinksOf(s), s.fs)
            THEN <<<<"C01", "fix-did-not-restore-links-or-dirs", [lk |-> s.lk, clk |-> s.clk, dr |-> s.dr, cdr |-> s.cdr]>>>>
       ELSE IF Len(o.unrec) # 0 \/ o.exit = "unrecoverable" THEN <<<<"C01", "fix-reported-unrecoverable", o>>>>
       ELSE <<>>

(* C05: fix never silently leaves or produces wrong data *)
C05_Sig(c, g, d, n, i, got) ==
    LET b == c.cf[d][n].bl[i]
    IN IF Reduced /\ b.st = "CHG" THEN "F7-reduced-hash-chg-block-always-accepted"
       ELSE IF b.st = "CHG" /\ IsUnique(b.h) /\ b.h = WantBlock(c, g, d, n, i) THEN "F1-chg-pasthash-is-new-hash"
       ELSE IF b.st = "CHG" /\ IsUnique(b.h) /\ LenOf(b.h) # BlkLen(c.cf[d][n].sz, i) THEN "F2-chg-pasthash-other-length"
       ELSE "other"
C05_Fix(c, g, f0, s, o, selected, allstripes) ==
    LET unrec == PairSet(o.unrec)
        wrong == {y \in AllFiles(c) \X (1..64) :
                    LET d == y[1][1]
                        n == y[1][2]
                        i == y[2]
                    IN /\ i <= Len(c.cf[d][n].bl)
                       /\ allstripes          \* -e / -b look only at the stripes marked bad, by design
                       /\ n \in selected[d]
                       /\ <<d, n>> \notin unrec
                       /\ n \in DOMAIN s.fs[d]
                       /\ i <= Len(s.fs[d][n].b)
                       /\ s.fs[d][n].b[i] # WantBlock(c, g, d, n, i)
                       \* a block without a recorded hash that fix found readable and left alone is not detectable damage
                       /\ ~(c.cf[d][n].bl[i].st = "CHG" /\ n \in DOMAIN f0[d] /\ i <= Len(f0[d][n].b)
                            /\ (f0[d][n].b[i] = s.fs[d][n].b[i] \/ (f0[d][n].sz > c.cf[d][n].sz /\ IsJunkVal(s.fs[d][n].b[i]))))
                       \* a block with a hash that was not damaged before stays as it is
                       /\ ~(c.cf[d][n].bl[i].st # "CHG" /\ FALSE)}
        touched_unselected == {x \in AllFiles(c) : x[2] \notin selected[x[1]] /\
                                 ~(IF x[2] \in DOMAIN f0[x[1]] THEN x[2] \in DOMAIN s.fs[x[1]] /\ s.fs[x[1]][x[2]] = f0[x[1]][x[2]]
                                   ELSE x[2] \notin DOMAIN s.fs[x[1]])}
    IN (IF wrong # {} THEN LET y == CHOOSE y \in wrong : TRUE
                           IN <<<<"C05", C05_Sig(c, g, y[1][1], y[1][2], y[2], s.fs[y[1][1]][y[1][2]].b[y[2]]),
                                  [file |-> y[1], blk |-> y[2], got |-> s.fs[y[1][1]][y[1][2]].b[y[2]],
                                   want |-> WantBlock(c, g, y[1][1], y[1][2], y[2]), rec |-> c.cf[y[1][1]][y[1][2]].bl[y[2]]]>>>>
        ELSE <<>>) \o
       (IF touched_unselected # {} THEN <<<<"C05", "wrote-unselected", touched_unselected>>>> ELSE <<>>)

(* C04: detection and location of silent corruption on an otherwise synced array *)
C04_Check(c, f, pr, a, o) ==
    LET tde == TrueDataErrors(c, f)
        lde == PairSet(o.derr)
        present == PresentOf(a)
        cleanstripes == {p \in 0..(AllocatedMax(c) - 1) : (\E d \in D : HasFile(BlockAtSlow(c, d, p)))
                                                          /\ ~\E d \in D : <<p, d>> \in tde}
        tpe == {x \in cleanstripes \X present : ParWrong(c, pr, x[1], x[2])}
        lpe == {x \in PairSet(o.perr) : x[1] \in cleanstripes}
    IN IF lde # tde THEN <<<<"C04", "check-data-errors", [reported |-> lde, real |-> tde]>>>>
       ELSE IF ~a.audit /\ lpe # tpe THEN <<<<"C04", "check-parity-errors", [reported |-> lpe, real |-> tpe]>>>>
       ELSE IF (tde # {} \/ (~a.audit /\ tpe # {})) /\ o.rc = 0 THEN <<<<"C04", "check-exit-ok-with-errors", o>>>>
       ELSE IF tde = {} /\ (a.audit \/ tpe = {}) /\ PairSet(o.perr) = {} /\ o.rc # 0 THEN <<<<"C04", "check-fails-without-damage", o>>>>
       ELSE <<>>
C04_Scrub(c, f, pr, a, s, o) ==
    LET sel == PlanSel(c, a.plan)
        tde == {x \in TrueDataErrors(c, f) : x[1] \in sel}
        lde == PairSet(o.derr)
        cleanstripes == {p \in sel : ~\E d \in D : <<p, d>> \in tde}
        tpe == {x \in cleanstripes \X Levels : ParWrong(c, pr, x[1], x[2])}
        lpe == PairSet(o.perr)
        affected == {x[1] : x \in tde \cup tpe}
        marked == {p \in 0..(Len(s.info) - 1) : s.info[p + 1].p /\ s.info[p + 1].bad}
        before == {p \in 0..(Len(c.info) - 1) : c.info[p + 1].p /\ c.info[p + 1].bad}
    IN IF lde # tde THEN <<<<"C04", "scrub-data-errors", [reported |-> lde, real |-> tde]>>>>
       ELSE IF lpe # tpe THEN <<<<"C04", "scrub-parity-errors", [reported |-> lpe, real |-> tpe]>>>>
       ELSE IF marked # (before \ sel) \cup affected THEN <<<<"C04", "scrub-marks", [marked |-> marked, expected |-> (before \ sel) \cup affected]>>>>
       ELSE IF (affected # {}) # (o.rc # 0) THEN <<<<"C04", "scrub-exit", o>>>>
       ELSE <<>>

(* C19: blocks recorded as synced whose hash is not the hash of the file's data although the file has the recorded
   size and time stamp (only meaningful while no silent corruption was injected) *)
C19_Wrong(c, f) == {y \in AllFiles(c) \X (1..64) :
                      LET d == y[1][1]
                          n == y[1][2]
                          i == y[2]
                      IN /\ i <= Len(c.cf[d][n].bl)
                         /\ c.cf[d][n].bl[i].st = "BLK"
                         /\ n \in DOMAIN f[d] /\ f[d][n].sz = c.cf[d][n].sz /\ f[d][n].mt = c.cf[d][n].mt
                         /\ i <= Len(f[d][n].b)
                         /\ HashOf(f[d][n].b[i], BlkLen(c.cf[d][n].sz, i)) # c.cf[d][n].bl[i].h}

LinkCounts(k) == [d \in D |-> [eq |-> Cardinality({n \in DOMAIN k.clk[d] : n \in DOMAIN k.lk[d] /\ k.lk[d][n] = k.clk[d][n]}),
                               rm |-> Cardinality({n \in DOMAIN k.clk[d] : n \notin DOMAIN k.lk[d]}),
                               chg |-> Cardinality({n \in DOMAIN k.clk[d] : n \in DOMAIN k.lk[d] /\ k.lk[d][n] # k.clk[d][n]})]]
DirsSynced(k) == \A d \in D : ToSet(k.dr[d]) = ToSet(k.cdr[d])
C11_AfterSync(newc, nf, k) ==
    (IF ~NoDifference(newc, nf) THEN <<<<"C11", "successful-sync-left-file-differences", <<>>>>>> ELSE <<>>) \o
    (IF ~LinksSynced(k) THEN <<<<"C11", "successful-sync-left-link-differences", <<k.lk, k.clk>>>>>> ELSE <<>>) \o
    (IF ~DirsSynced(k) THEN <<<<"C11", "successful-sync-left-empty-dir-differences", <<k.dr, k.cdr>>>>>> ELSE <<>>) \o
    (IF ParityInvalid(newc) THEN <<<<"C11", "successful-sync-left-unsynced-blocks", <<>>>>>> ELSE <<>>)
C11_Diff(c, f, k, o, inochange) ==
    LET differs == ~NoDifference(c, f) \/ ~LinksSynced(k) \/ ParityInvalid(c) \/ inochange
    IN IF differs /\ o.rc # 2 THEN <<<<"C11", "diff-misses-a-difference", o>>>>
       ELSE IF ~differs /\ o.rc # 0 THEN <<<<"C11", "diff-reports-without-difference", o>>>> ELSE <<>>
C11_List(c, k, o) ==
    LET lf == {<<o.files[i][1], o.files[i][2], o.files[i][3], o.files[i][4], o.files[i][5]>> : i \in 1..Len(o.files)}
        ef == {<<x[1], x[2], c.cf[x[1]][x[2]].sz, c.cf[x[1]][x[2]].mt[1], c.cf[x[1]][x[2]].mt[2]>> : x \in AllFiles(c)}
        ll == {<<o.links[i][1], o.links[i][2]>> : i \in 1..Len(o.links)}
        el == UNION {{<<d, n>> : n \in DOMAIN k.clk[d]} : d \in D}
    IN IF lf # ef THEN <<<<"C11", "list-files-differ-from-recorded", [listed |-> lf \ ef, missing |-> ef \ lf]>>>>
       ELSE IF ll # el THEN <<<<"C11", "list-links-differ-from-recorded", [listed |-> ll, recorded |-> el]>>>> ELSE <<>>

(* C12: frames, on byte-level digests of the three kinds of files *)
C12_Frame(cmd, s) ==
    LET keepF == cmd \in {"Check", "Diff", "Scrub", "Sync"}
        keepP == cmd \in {"Check", "Diff", "Scrub"}
        keepC == cmd \in {"Check", "Diff", "Fix"}
    IN (IF keepF /\ s.sha.f # sha.f THEN <<<<"C12", cmd \o "-changed-data", <<sha.f, s.sha.f>>>>>> ELSE <<>>) \o
       (IF keepP /\ s.sha.p # sha.p THEN <<<<"C12", cmd \o "-changed-parity", <<sha.p, s.sha.p>>>>>> ELSE <<>>) \o
       (IF keepC /\ s.sha.c # sha.c THEN <<<<"C12", cmd \o "-changed-content", <<sha.c, s.sha.c>>>>>> ELSE <<>>) \o
       (IF ~(ToSet(s.sha.x) \subseteq ToSet(sha.x)) THEN <<<<"C12", cmd \o "-extra-artefacts", <<sha.x, s.sha.x>>>>>> ELSE <<>>)

Init ==
    /\ l = 2
    /\ fs = Hdr.state.fs
    /\ C = LoggedC(Hdr.state)
    /\ par = LoggedPar(Hdr.state, [lv \in Levels |-> <<>>])
    /\ diag = <<>>
    /\ clean = FALSE
    /\ snap = Hdr.state.fs
    /\ dmg = ("dmg" \in DOMAIN Hdr /\ Hdr.dmg)      \* a file may begin with the continuation of an execution (see ResetStep)
    /\ ghost = [d \in D |-> <<>>]
    /\ sha = Hdr.state.sha
    /\ pviol = <<>>
    /\ afterfix = FALSE
    /\ lks = LinksOf(Hdr.state)

Ev == TraceLog[l]
IsEvent(e) == l <= Len(TraceLog) /\ TraceLog[l].e = e

Follow(s, predpar) ==
    /\ l' = l + 1
    /\ fs' = s.fs
    /\ C' = LoggedC(s)
    /\ par' = ParMerge(predpar, s)
    /\ sha' = s.sha
    /\ lks' = LinksOf(s)

GhostKeep(c) == [d \in D |-> [n \in DOMAIN c.cf[d] \cap DOMAIN ghost[d] |-> ghost[d][n]]]

(* environment: user edits, corruption, loss.  Content files are not touched by these events. *)
EnvStep ==
    /\ IsEvent("Env")
    /\ Follow(Ev.state, par)
    /\ diag' = IF LoggedC(Ev.state) = C THEN <<>> ELSE <<"Env changed content", l>>
    /\ clean' = (clean /\ Ev.dmg)
    /\ dmg' = (dmg \/ Ev.dmg)
    /\ pviol' = <<>>
    /\ afterfix' = FALSE
    /\ UNCHANGED <<snap, ghost>>

SrcsOf(a) == a.srcs
SamePar(p1, p2) == \A i \in 1..Len(p1) : p1[i] = p2[i] \/ {p1[i], p2[i]} \subseteq {"none", "empty"}

SyncStep ==
    /\ IsEvent("Sync")
    /\ LET a == Ev.args
           fs1 == IF "fs1" \in DOMAIN Ev THEN Ev.fs1 ELSE fs
           r == SyncResult(C, fs, fs1, par, a.now, [links |-> LinkCounts(lks), reduced |-> Reduced,
                                                     trusted |-> IF "trusted" \in DOMAIN a THEN ToSet(a.trusted) ELSE {}] @@ a.opts, SrcsOf(a))
           okC == r.C = LoggedC(Ev.state)
           okP == ParAgrees(r.par, Ev.state)
           okO == IF r.out.exit \in {"refused", "abort", "prehash-stop"} THEN Ev.out.exit = "stopped"
                  ELSE r.out.exit = Ev.out.exit /\ r.out.err = Ev.out.err /\ r.out.silent = Ev.out.silent
           okF == Ev.state.fs = fs1
           L0 == ClearPast(C)
           newc == LoggedC(Ev.state)
           fullrebuild == a.opts.force_full /\ a.opts.bstart = 0 /\ a.opts.bcount = 0 /\ a.opts.stop = 0
           fullsync == a.opts.bstart = 0 /\ a.opts.bcount = 0 /\ a.opts.stop = 0 /\ ~a.opts.kill_after
       IN /\ Follow(Ev.state, r.par)
          /\ diag' = IF okC /\ okP /\ okO /\ okF THEN <<>>
                     ELSE <<"Sync", l, [okC |-> okC, okP |-> okP, okO |-> okO, okF |-> okF],
                            IF ~okC THEN DiffC(r.C, LoggedC(Ev.state)) ELSE <<>>, IF ~okP THEN r.par ELSE <<>>, r.out, Ev.out>>
          \* a sync that went on over a parity file shorter than the state uses (finding F12, reported below) leaves stripes
          \* recorded as synced without parity: a damage episode for what follows, like a lost parity block
          /\ clean' = (Ev.out.exit = "ok" /\ CleanSynced(newc, Ev.state.fs) /\ (~(dmg \/ (r.must = "parity-too-small" /\ r.out.exit # "refused")) \/ fullrebuild))
          /\ snap' = IF Ev.out.exit = "ok" THEN Ev.state.fs ELSE snap
          /\ dmg' = ((dmg \/ (r.must = "parity-too-small" /\ r.out.exit # "refused")) /\ ~(Ev.out.exit = "ok" /\ fullrebuild))
          \* the content of a file at the scan that (re)created its record
          /\ ghost' = [d \in D |-> [n \in DOMAIN newc.cf[d] |->
                          IF n \in Fresh(L0, fs, d) /\ n \in DOMAIN fs[d] THEN fs[d][n].b
                          ELSE IF n \in DOMAIN ghost[d] THEN ghost[d][n] ELSE <<>>]]
          /\ pviol' = (IF "fs1" \in DOMAIN Ev THEN <<>> ELSE C12_Frame("Sync", Ev.state)) \o
                      (IF r.out.exit = "refused" /\ (Ev.out.rc = 0 \/ Ev.state.sha.c # sha.c \/ ~SamePar(Ev.state.sha.p, sha.p))
                       THEN <<<<"C14", "interlock-did-not-hold", [rc |-> Ev.out.rc, before |-> sha, after |-> Ev.state.sha]>>>> ELSE <<>>) \o
                      \* C14 on what the property demands (r.must), whatever the code (and the specification that follows it) does
                      (IF r.must # "no" /\ r.out.exit # "refused" /\ Ev.out.exit # "stopped"
                       THEN <<<<"C14", IF r.must = "parity-too-small" /\ a.opts.v3 THEN "F12-parity-size-interlock-uses-the-recorded-size"
                                       ELSE "interlock-not-applied:" \o r.must, [rc |-> Ev.out.rc, flags |-> a.flags]>>>> ELSE <<>>) \o
                      (IF "expect_refused" \in DOMAIN a /\ r.out.exit # "refused" /\ r.must = "no" THEN <<<<"C14", "model-does-not-refuse", a.flags>>>> ELSE <<>>) \o
                      \* C19: a block is recorded as synced only with the hash of the data that was read; with pre-hash a
                      \* mismatch stops the sync before any parity is written
                      (IF ~dmg /\ "fs1" \notin DOMAIN Ev /\ Ev.out.exit = "ok" /\ fullsync /\ C19_Wrong(newc, Ev.state.fs) # {}
                       THEN <<<<"C19",
                               \* finding F13: on a disk whose inode numbers are trusted, a file that has the path, size and time stamp of a
                               \* recorded file but ANOTHER inode number is taken as "restored" and keeps the hashes without being read
                               IF \A y \in C19_Wrong(newc, Ev.state.fs) :
                                      LET d == y[1][1]
                                          n == y[1][2]
                                      IN /\ n \in DOMAIN C.cf[d] /\ "ino" \in DOMAIN C.cf[d][n] /\ n \in DOMAIN fs[d]
                                         /\ "trusted" \in DOMAIN a /\ d \in ToSet(a.trusted)
                                         /\ C.cf[d][n].ino # fs[d][n].ino /\ SameStamp(C.cf[d][n], fs[d][n])
                                         \* ... an inode number that is not the recorded one of any file (else it is a move by inode)
                                         /\ ~\E m \in DOMAIN C.cf[d] : "ino" \in DOMAIN C.cf[d][m] /\ C.cf[d][m].ino = fs[d][n].ino
                               THEN "F13-same-path-size-stamp-other-inode-taken-as-restored"
                               ELSE "synced-block-hash-is-not-the-hash-of-the-data", C19_Wrong(newc, Ev.state.fs)>>>> ELSE <<>>) \o
                      (IF r.out.exit = "prehash-stop" /\ ~SamePar(Ev.state.sha.p, sha.p)
                       THEN <<<<"C19", "prehash-mismatch-but-parity-written", <<>>>>>> ELSE <<>>) \o
                      (IF Ev.out.exit = "ok" /\ fullsync /\ "fs1" \notin DOMAIN Ev
                       THEN C11_AfterSync(newc, Ev.state.fs, LinksOf(Ev.state)) ELSE <<>>)
          /\ afterfix' = FALSE

(* a sync that was killed (SIGKILL at some system call): the content copy that loads is the old state, the
   state saved before the stripes are processed, or the final state; data disks are never touched (C07) *)
SyncKilledStep ==
    /\ IsEvent("SyncKilled")
    /\ LET a == Ev.args
           r == SyncResult(C, fs, fs, par, a.now, a.opts, SrcsOf(a))
           L0 == ClearPast(C)
           presave == Normalize(Scan(L0, fs, SrcsOf(a), TRUE))
           newc == LoggedC(Ev.state)
           alts == Ev.state.alts
           loadable == {i \in 1..Len(alts) : "bad" \notin DOMAIN alts[i]}
           partial == {i \in 1..Len(alts) : "bad" \in DOMAIN alts[i] /\ alts[i].bad = "BAD"}
           M0 == WithIndex(Scan(L0, fs, SrcsOf(a), TRUE))
           \* state written by an autosave after the stripe a.autosave_at (sync.c:1302-1340)
           autosaved == IF "autosave_at" \in DOMAIN a
                        THEN Normalize(SyncAll(M0, fs, Resize(par, AllocatedMax(M0)), a.autosave_at + 1, a.now, FALSE,
                                               [lv \in Levels |-> Len(par[lv])]).M)
                        ELSE C
           okC == \A i \in loadable : LoggedC(alts[i]) \in {C, presave, r.C, autosaved}
           newpar == ParMerge(par, Ev.state)
           c06 == \A i \in loadable : ParityValid(LoggedC(alts[i]), newpar) /\ MapSane(LoggedC(alts[i]))
           addonly == \A d \in D : Gone(L0, fs, d) = {}
           \* stripes in which some block belongs to a file that is still there unchanged must keep valid parity whatever is pending
           keptstripes(c) == {p \in 0..(AllocatedMax(c) - 1) : \E d \in D : LET b == BlockAtSlow(c, d, p)
                                                                          IN HasFile(b) /\ b.n \in DOMAIN fs[d] /\ SameStamp(fs[d][b.n], c.cf[d][b.n])}
           c06kept == \A i \in loadable : LET ci == LoggedC(alts[i])
                                          IN \A p \in keptstripes(ci) : AllSynced(ci, p) =>
                                                \A lv \in Levels : p + 1 <= Len(newpar[lv]) /\ newpar[lv][p + 1].k = "V" /\ newpar[lv][p + 1].w = StripeVec(ci, p)
       IN /\ Follow(Ev.state, par)
          /\ diag' = IF okC THEN <<>> ELSE <<"SyncKilled", l, DiffC(presave, newc)>>
          /\ clean' = FALSE
          /\ ghost' = IF newc = C THEN ghost
                      ELSE [d \in D |-> [n \in DOMAIN newc.cf[d] |->
                              IF n \in Fresh(L0, fs, d) /\ n \in DOMAIN fs[d] THEN fs[d][n].b
                              ELSE IF n \in DOMAIN ghost[d] THEN ghost[d][n] ELSE <<>>]]
          /\ pviol' = (IF Ev.state.sha.f # sha.f THEN <<<<"C07", "killed-sync-changed-data", <<>>>>>> ELSE <<>>) \o
                      (IF partial # {} THEN <<<<"C09", "content-copy-partial-after-kill", partial>>>> ELSE <<>>) \o
                      (IF loadable = {} THEN <<<<"C07", "no-content-copy-loads-after-kill", <<>>>>>> ELSE <<>>) \o
                      \* "when the interrupted sync had only additions pending, every file synced before stays recoverable": with
                      \* deletions pending the parity files may already be cut to the new size while the content on disk still is
                      \* the old one (sync.c resizes the parity before the first save); the next sync then refuses or completes
                      (IF ~dmg /\ ((~c06 /\ addonly) \/ ~c06kept) THEN <<<<"C07", IF "autosave_at" \in DOMAIN a /\ newc = autosaved /\ newc # r.C
                                                     THEN "F5-autosave-before-parity-writers-drained"
                                                     ELSE "synced-stripes-without-valid-parity-after-kill", a.rules>>>> ELSE <<>>)
          /\ afterfix' = FALSE
          \* synced stripes left without valid parity by the kill are reported here (C07); from then on the array counts as
          \* damaged for the state invariants of C06, which would only repeat the same report at every later step
          /\ dmg' = (dmg \/ ~c06)
          /\ UNCHANGED snap

SelOf(a) == [d \in D |-> ToSet(a.sel[d])]
\* -N (--force-nocopy) given to check or fix: the files of the array are not searched for copies of a bad block (snapraid.c:1529)
NoCopyOf(a) == "flags" \in DOMAIN a /\ \E i \in 1..Len(a.flags) : a.flags[i] \in {"-N", "--force-nocopy"}
ExtOf(a) == (IF "ext" \in DOMAIN a THEN [stamp |-> ToSet(a.ext.stamp), blocks |-> ToSet(a.ext.blocks), reduced |-> Reduced]
             ELSE [NoExt EXCEPT !.reduced = Reduced]) @@ [nocopy |-> NoCopyOf(a)]

(* fix as seen through the paths: after the stripes, fix re-creates every recorded link that is not right (check.c:1590-1760):
   a recorded hard link becomes a name of its target's inode (whatever was at that path is removed first), a recorded symbolic
   link replaces whatever is at its path.  Links are processed only when at least one stripe is in the range. *)
ExpectedPaths(rfs, k, rg, c) ==
    LET base == PathFs(rfs, k)
    IN IF RangeOf(rg, AllocatedMax(c)) = {} THEN base ELSE
       [d \in D |->
           LET hl == {n \in DOMAIN k.clk[d] : k.clk[d][n][1] = "hard" /\ k.clk[d][n][2] \in DOMAIN base[d]}
               sl == {n \in DOMAIN k.clk[d] : k.clk[d][n][1] # "hard"}
           IN Eager([n \in (DOMAIN base[d] \cup hl) \ sl |-> IF n \in hl THEN base[d][k.clk[d][n][2]] ELSE base[d][n]])]

FltOf(a) == IF "flt" \in DOMAIN a
            THEN FilterOf(C, [disks |-> ToSet(a.flt.disks), plevels |-> ToSet(a.flt.plevels), usenames |-> a.flt.usenames,
                              names |-> [d \in D |-> ToSet(a.flt.names[d])], missing |-> a.flt.missing,
                              exists |-> [d \in D |-> ToSet(a.flt.exists[d])], bad |-> a.flt.bad])
            ELSE FilterOfSel(C, SelOf(a))

CheckStep ==
    /\ IsEvent("Check")
    /\ LET a == Ev.args
           flt == IF "flt" \in DOMAIN a THEN FltOf(a) ELSE NoFilterOf(C)
           r == CheckResultF(C, PathFs(fs, lks), par, PresentOf(a), a.audit, a.range, ExtOf(a), flt)
           lerr == LinkErrorsF(lks, fs) /\ RangeOf(a.range, AllocatedMax(C)) # {} /\ "flt" \notin DOMAIN a      \* links are not looked at without any stripe
           xexit == IF r.exit = "ok" /\ lerr THEN (IF a.audit THEN "error" ELSE "recoverable") ELSE r.exit
           okO == (xexit = Ev.out.exit \/ (lerr /\ Ev.out.exit = "unrecoverable"))
                  /\ r.derr = PairSet(Ev.out.derr) /\ (a.audit \/ r.perr = PairSet(Ev.out.perr))
           okS == LoggedC(Ev.state) = C /\ Ev.state.fs = fs /\ ParAgrees(par, Ev.state)
       IN /\ Follow(Ev.state, par)
          /\ diag' = IF okO /\ okS THEN <<>> ELSE <<"Check", l, [okO |-> okO, okS |-> okS], r, Ev.out>>
          /\ pviol' = C12_Frame("Check", Ev.state) \o
                      (IF ~ParityInvalid(C) /\ NoDifference(C, fs) /\ (\A lv \in PresentOf(a) : Len(par[lv]) >= AllocatedMax(C))
                          /\ a.range.bstart = 0 /\ a.range.bcount = 0 /\ ~LinkErrorsF(lks, fs) /\ "flt" \notin DOMAIN a
                       THEN C04_Check(C, fs, par, a, Ev.out) ELSE <<>>) \o
                      (IF afterfix /\ Ev.out.rc # 0 THEN <<<<"C01", "check-after-fix-finds-errors", Ev.out>>>> ELSE <<>>) \o
                      \* C07: an interrupted sync that was run again to its end leaves an array on which check finds nothing
                      (IF "expect_clean" \in DOMAIN a /\ Ev.out.rc # 0 /\ ~dmg THEN <<<<"C07", "check-after-resumed-sync-finds-errors", Ev.out>>>> ELSE <<>>)
          \* a full check without any error ends a damage episode
          /\ dmg' = (dmg /\ ~(~a.audit /\ Ev.out.rc = 0 /\ PresentOf(a) = Levels /\ a.range.bstart = 0 /\ a.range.bcount = 0
                              /\ "flt" \notin DOMAIN a))
          \* a full check without any error on an array without pending changes (re)establishes the hypothesis of C01
          /\ clean' = (clean \/ (~a.audit /\ Ev.out.rc = 0 /\ PresentOf(a) = Levels /\ a.range.bstart = 0 /\ a.range.bcount = 0
                                 /\ "flt" \notin DOMAIN a /\ CleanSynced(C, fs)))
          /\ UNCHANGED <<snap, ghost, afterfix>>

FixStep ==
    /\ IsEvent("Fix")
    /\ LET a == Ev.args
           flt == FltOf(a)
           selected == [d \in D |-> DOMAIN C.cf[d] \ flt.ex[d]]
           r == FixRangeF(C, fs, par, PresentOf(a), flt, a.range, ExtOf(a))
           whole == a.range.bstart = 0 /\ a.range.bcount = 0 /\ "flt" \notin DOMAIN a
           okF == IF "lk" \in DOMAIN Ev.state /\ "flt" \notin DOMAIN a
                  THEN SameFs(ExpectedPaths(r.fs, lks, a.range, C), PathFs(Ev.state.fs, LinksOf(Ev.state)))
                  ELSE SameFs(r.fs, Ev.state.fs)
           okP == ParAgrees(r.par, Ev.state)
           okC == LoggedC(Ev.state) = C
           okO == /\ (r.out.exit = Ev.out.exit \/ (LinkErrorsF(lks, fs) /\ r.out.exit \in {"ok", "recovered"} /\ Ev.out.exit \in {"recovered", "unrecoverable"}))
                  /\ r.out.unrec = PairSet(Ev.out.unrec)
                  /\ r.out.recovered = PairSet(Ev.out.recovered)
           c01 == clean /\ WithinBounds(C, fs, par) /\ ~StampOnlyChange(C, fs)
       IN /\ Follow(Ev.state, r.par)
          \* observation O1: fix stops with "file ... disappeared" when a file it has just renamed to .unrecoverable
          \* (or removed) is still a candidate of the search by size and time stamp (search.c:83); such a run is only
          \* held to the frame conditions, like a killed fix
          /\ diag' = IF Ev.out.exit = "none" /\ Ev.out.rc # 0 /\ r.out.exit # "none" /\ Ev.out.disappeared THEN <<>>
                     \* a history TLC found for a branch of the repair logic (spec/witness) whose replayed fix goes another way:
                     \* the model leaves the bytes of parity that was allocated and never written unspecified ("junk"), a real
                     \* file system zero-fills them, so a few histories cannot be reproduced literally.  The step is validated
                     \* like any other; the miss is printed and counted by the harness (coverage of the binding, not a property)
                     ELSE IF "goal" \in DOMAIN a /\ a.goal \notin UNION {r.R[q].path : q \in DOMAIN r.R}
                             /\ ~PrintT(<<"WITNESS-MISS", l, a.goal>>)
                     THEN <<>>
                     ELSE IF "expect_c01" \in DOMAIN a /\ ~c01 THEN <<"C01-precondition-not-met", l, [clean |-> clean, within |-> WithinBounds(C, fs, par)]>>
                     ELSE IF okF /\ okP /\ okC /\ okO THEN <<>>
                     ELSE <<"Fix", l, [okF |-> okF, okP |-> okP, okC |-> okC, okO |-> okO],
                            IF ~okF THEN r.fs ELSE <<>>, IF ~okP THEN r.par ELSE <<>>, r.out, Ev.out>>
          /\ pviol' = C12_Frame("Fix", Ev.state) \o
                      (IF a.range.bstart = 0 /\ a.range.bcount = 0 /\ ~(Ev.out.exit = "none" /\ Ev.out.rc # 0) THEN C05_Fix(C, ghost, fs, Ev.state, Ev.out, selected, flt.bad = "no") ELSE <<>>) \o
                      (IF c01 /\ whole THEN C01_Fix(C, fs, par, Ev.state, Ev.out) ELSE <<>>)
          /\ afterfix' = (c01 /\ whole)
          /\ UNCHANGED <<clean, snap, dmg, ghost>>

(* a sync or scrub during which the operating system reported an error (EIO / ENOSPC injected by the shim) on the
   data read or the parity read/write of stripe a.fpos.  C08 is evaluated on the real post-state. *)
FaultStep ==
    /\ IsEvent("SyncFault") \/ IsEvent("ScrubFault")
    /\ LET a == Ev.args
           newc == LoggedC(Ev.state)
           L0 == ClearPast(C)
           p == a.fpos
           healthy == AllSynced(newc, p) /\ ~InfoAt(newc, p).bad
           pw == a.fkind = "parity-write"
           sig == IF pw /\ Ev.out.rc = 0 THEN "F4-parity-write-error-not-reported"
                  ELSE IF pw /\ healthy THEN "F3-parity-write-error-stripe-stays-synced"
                  ELSE IF Ev.out.rc = 0 THEN "io-error-exit-ok"
                  ELSE IF healthy THEN "io-error-stripe-recorded-synced-and-healthy"
                  ELSE "none"
           \* "all other stripes are processed normally": for a failing read, every stripe other than the one of the fault ends
           \* as it does in the run without the fault (SyncResult / ScrubResult of the specification): synced when it would be
           \* synced, not marked bad unless it would be.  Not for sync -h (an error in the pre-hash phase stops the command
           \* before any stripe is processed) and not for failing parity writes (the command stops at once).
           readfault == p >= 0 /\ a.fkind \in {"data-read", "parity-read"} /\ "opts" \in DOMAIN a /\ "srcs" \in DOMAIN a /\ ~a.opts.prehash
           rS == IF Ev.e = "SyncFault" THEN SyncResult(C, fs, fs, par, a.now, [links |-> LinkCounts(lks), reduced |-> Reduced] @@ a.opts, SrcsOf(a)).C
                 ELSE ScrubResult(C, PathFs(fs, lks), par, PlanSel(C, a.plan), a.now, PresentOf(a)).C
           spread == IF Ev.e = "SyncFault"
                     THEN {q \in 0..(AllocatedMax(rS) - 1) : q # p /\ ((AllSynced(rS, q) /\ ~AllSynced(newc, q))
                                                                        \/ (InfoAt(newc, q).bad /\ ~InfoAt(rS, q).bad))}
                     ELSE {q \in 0..(Len(rS.info) - 1) : q # p /\ InfoAt(newc, q) # InfoAt(rS, q)}
           others == IF (Ev.e = "SyncFault" /\ readfault) \/ (Ev.e = "ScrubFault" /\ p >= 0 /\ "present" \in DOMAIN a) THEN spread ELSE {}
       IN /\ Follow(Ev.state, par)
          /\ diag' = <<>>
          /\ clean' = FALSE
          /\ ghost' = IF newc = C \/ Ev.e = "ScrubFault" THEN ghost
                      ELSE [d \in D |-> [n \in DOMAIN newc.cf[d] |->
                              IF n \in Fresh(L0, fs, d) /\ n \in DOMAIN fs[d] THEN fs[d][n].b
                              ELSE IF n \in DOMAIN ghost[d] THEN ghost[d][n] ELSE <<>>]]
          /\ pviol' = (IF p >= 0 /\ sig # "none" THEN <<<<"C08", sig, [kind |-> a.fkind, pos |-> p, rc |-> Ev.out.rc, rules |-> a.rules]>>>> ELSE <<>>) \o
                      \* one failing call is one input/output error in the summary (never more: an error must not be counted again
                      \* for the stripes that follow; it may be 0 only through the known findings F3/F4 on parity writes)
                      (IF p >= 0 /\ Ev.out.io = 0 /\ Ev.out.rc # 0 /\ a.fkind \in {"data-read", "parity-read"}
                          /\ ("opts" \in DOMAIN a => ~a.opts.prehash)      \* an error in the pre-hash phase ends the command at once, with a message and no summary
                       THEN <<<<"C08", "io-error-not-counted", [kind |-> a.fkind, pos |-> p, io |-> Ev.out.io]>>>> ELSE <<>>) \o
                      (IF p >= 0 /\ Ev.out.io > 1 THEN <<<<"C08", "one-io-error-counted-several-times", [kind |-> a.fkind, pos |-> p, io |-> Ev.out.io]>>>> ELSE <<>>) \o
                      (IF others # {} THEN <<<<"C08", "io-error-changes-the-outcome-of-other-stripes", [kind |-> a.fkind, pos |-> p, others |-> others]>>>> ELSE <<>>) \o
                      \* ... and no block may end recorded as synced with a hash that is not the hash of its data (of the function in use at
                      \* its position): the hashes computed for a stripe that is then skipped must not reach the state
                      (IF p >= 0 /\ C19_Wrong(C, fs) = {} /\ C19_Wrong(newc, Ev.state.fs) # {}
                       THEN <<<<"C08", "io-error-leaves-a-synced-block-with-a-wrong-hash", C19_Wrong(newc, Ev.state.fs)>>>> ELSE <<>>) \o
                      (IF Ev.state.sha.f # sha.f THEN <<<<"C12", Ev.e \o "-changed-data", <<>>>>>> ELSE <<>>) \o
                      (IF Ev.e = "ScrubFault" /\ Ev.state.sha.p # sha.p THEN <<<<"C12", "ScrubFault-changed-parity", <<>>>>>> ELSE <<>>)
          /\ dmg' = (dmg \/ pw)
          /\ afterfix' = FALSE
          /\ UNCHANGED snap

(* C14: a command that must be refused (configuration guards, lock): failing status, nothing changed.  A missing and an
   empty parity file are the same abstract value (a refused sync may create the empty file). *)
RefusedStep ==
    /\ IsEvent("Refused")
    /\ Follow(Ev.state, par)
    /\ diag' = IF LoggedC(Ev.state) = C THEN <<>> ELSE <<"Refused changed content", l>>
    /\ pviol' = (IF Ev.out.rc = 0 THEN <<<<"C14", "not-refused:" \o Ev.args.trigger, Ev.args>>>> ELSE <<>>) \o
                (IF Ev.state.sha.c # sha.c \/ ~SamePar(Ev.state.sha.p, sha.p) \/ Ev.state.sha.f # sha.f
                 THEN <<<<"C14", "refused-but-changed:" \o Ev.args.trigger, <<sha, Ev.state.sha>>>>>> ELSE <<>>)
    /\ UNCHANGED <<clean, snap, dmg, ghost, afterfix>>

(* a fix that was killed: content files untouched; data and parity are in some intermediate state from which
   the next fix is validated as usual *)
FixKilledStep ==
    /\ IsEvent("FixKilled")
    /\ Follow(Ev.state, par)
    /\ diag' = <<>>
    /\ pviol' = IF Ev.state.sha.c # sha.c THEN <<<<"C07", "killed-fix-changed-content", <<>>>>>> ELSE <<>>
    /\ afterfix' = FALSE
    /\ UNCHANGED <<clean, snap, dmg, ghost>>

ScrubStep ==
    /\ IsEvent("Scrub")
    /\ LET a == Ev.args
           r == ScrubResult(C, PathFs(fs, lks), par, PlanSel(C, a.plan), a.now, PresentOf(a))
           okC == r.C = LoggedC(Ev.state)
           okS == Ev.state.fs = fs /\ ParAgrees(par, Ev.state)
           okO == r.out.exit = Ev.out.exit /\ r.out.derr = PairSet(Ev.out.derr) /\ r.out.perr = PairSet(Ev.out.perr)
       IN /\ Follow(Ev.state, par)
          /\ diag' = IF okC /\ okS /\ okO THEN <<>> ELSE <<"Scrub", l, [okC |-> okC, okS |-> okS, okO |-> okO], IF ~okC THEN DiffC(r.C, LoggedC(Ev.state)) ELSE <<>>, r.out, Ev.out>>
          /\ pviol' = C12_Frame("Scrub", Ev.state) \o
                      (IF ~ParityInvalid(C) /\ NoDifference(C, fs) /\ PresentOf(a) = Levels /\ Ev.out.exit # "none"
                          /\ \A lv \in Levels : Len(par[lv]) >= AllocatedMax(C)
                       THEN C04_Scrub(C, fs, par, a, Ev.state, Ev.out) ELSE <<>>)
          /\ UNCHANGED <<clean, snap, dmg, ghost, afterfix>>

DiffStep ==
    /\ IsEvent("Diff")
    /\ LET tr == IF "trusted" \in DOMAIN Ev.args THEN ToSet(Ev.args.trusted) ELSE {}
           r0 == DiffResultI(C, fs, tr)
           r == [exit |-> IF r0.exit = "equal" /\ LinksSynced(lks) THEN "equal" ELSE "diff"]
           okS == LoggedC(Ev.state) = C /\ Ev.state.fs = fs /\ ParAgrees(par, Ev.state)
       IN /\ Follow(Ev.state, par)
          /\ diag' = IF r.exit = Ev.out.exit /\ okS THEN <<>> ELSE <<"Diff", l, r, okS>>
          /\ pviol' = C12_Frame("Diff", Ev.state) \o C11_Diff(InoRename(C, fs, tr), fs, lks, Ev.out, InoDifferences(C, fs, tr))
          /\ UNCHANGED <<clean, snap, dmg, ghost, afterfix>>

(* touch (touch.c): every recorded file whose recorded sub-second stamp is zero and which can be opened gets a random
   non-zero sub-second part, on the disk (seconds as they are on the disk) and in the content (seconds as recorded);
   nothing else changes (C12). *)
TouchStep ==
    /\ IsEvent("Touch")
    /\ LET newc == LoggedC(Ev.state)
           nf == Ev.state.fs
           okFiles == \A d \in D :
                         /\ DOMAIN nf[d] = DOMAIN fs[d] /\ DOMAIN newc.cf[d] = DOMAIN C.cf[d]
                         /\ \A n \in DOMAIN fs[d] :
                               IF n \in DOMAIN C.cf[d] /\ C.cf[d][n].mt[2] = 0
                               THEN /\ nf[d][n].b = fs[d][n].b /\ nf[d][n].sz = fs[d][n].sz
                                    /\ nf[d][n].mt[1] = fs[d][n].mt[1] /\ nf[d][n].mt[2] > 0
                                    /\ newc.cf[d][n] = [C.cf[d][n] EXCEPT !.mt = <<C.cf[d][n].mt[1], nf[d][n].mt[2]>>]
                               ELSE nf[d][n] = fs[d][n]
                         \* observation O3: touch opens the recorded path whatever is there now; when a directory has taken the
                         \* place of a recorded file it gives the directory a new sub-second stamp and records it for the file
                         /\ \A n \in DOMAIN C.cf[d] : (n \notin DOMAIN fs[d] \/ C.cf[d][n].mt[2] # 0) =>
                               \/ newc.cf[d][n] = C.cf[d][n]
                               \/ /\ n \in AllDirs(lks, d) /\ C.cf[d][n].mt[2] = 0
                                  /\ newc.cf[d][n] = [C.cf[d][n] EXCEPT !.mt = <<C.cf[d][n].mt[1], newc.cf[d][n].mt[2]>>]
           okRest == newc.del = C.del /\ newc.info = C.info /\ ParAgrees(par, Ev.state)
       IN /\ Follow(Ev.state, par)
          /\ diag' = IF okFiles /\ okRest THEN <<>> ELSE <<"Touch", l, [okFiles |-> okFiles, okRest |-> okRest]>>
          /\ pviol' = (IF Ev.state.sha.p # sha.p THEN <<<<"C12", "Touch-changed-parity", <<>>>>>> ELSE <<>>) \o
                      (IF ~okFiles THEN <<<<"C12", "touch-changed-more-than-zero-subsecond-stamps", <<>>>>>> ELSE <<>>)
          /\ clean' = FALSE
          /\ UNCHANGED <<snap, dmg, ghost, afterfix>>

(* rehash: refused while a migration is in progress or when the array already uses the best hash function of the platform
   (a.best, observed); otherwise every used position is marked and nothing else changes *)
RehashStep ==
    /\ IsEvent("Rehash")
    /\ LET a == Ev.args
           refused == RehashInProgress(C) \/ a.best
           want == IF refused THEN C ELSE RehashMarked(C)
           ok == LoggedC(Ev.state) = want /\ Ev.state.fs = fs /\ ParAgrees(par, Ev.state) /\ (Ev.out.rc = 0) = ~refused
       IN /\ Follow(Ev.state, par)
          /\ diag' = IF ok THEN <<>> ELSE <<"Rehash", l, [refused |-> refused, rc |-> Ev.out.rc], want.info>>
          /\ pviol' = C12_Frame("Scrub", Ev.state) \o
                      (IF refused /\ Ev.state.sha.c # sha.c THEN <<<<"C12", "refused-rehash-changed-content", <<>>>>>> ELSE <<>>)
          /\ UNCHANGED <<clean, snap, dmg, ghost, afterfix>>

ListStep ==
    /\ IsEvent("List")
    /\ Follow(Ev.state, par)
    /\ diag' = IF LoggedC(Ev.state) = C /\ Ev.state.fs = fs THEN <<>> ELSE <<"List changed something", l>>
    /\ pviol' = C12_Frame("Check", Ev.state) \o C11_List(C, lks, Ev.out)
    /\ UNCHANGED <<clean, snap, dmg, ghost, afterfix>>

(* a new execution in the same file (same D, NP) *)
ResetStep ==
    /\ IsEvent("Reset")
    /\ l' = l + 1
    /\ fs' = Ev.state.fs
    /\ C' = LoggedC(Ev.state)
    /\ par' = LoggedPar(Ev.state, [lv \in Levels |-> <<>>])
    /\ sha' = Ev.state.sha
    /\ lks' = LinksOf(Ev.state)
    /\ diag' = <<>>
    /\ clean' = FALSE
    /\ snap' = Ev.state.fs
    /\ dmg' = ("dmg" \in DOMAIN Ev /\ Ev.dmg)       \* e.g. the state in the middle of a stopped command
    /\ ghost' = [d \in D |-> <<>>]
    /\ pviol' = <<>>
    /\ afterfix' = FALSE

Next == EnvStep \/ RefusedStep \/ RehashStep \/ TouchStep \/ ListStep \/ SyncStep \/ SyncKilledStep \/ FixKilledStep \/ FaultStep \/ CheckStep \/ FixStep \/ ScrubStep \/ DiffStep \/ ResetStep
Spec == Init /\ [][Next]_vars

(* ---- what TLC checks ---- *)
Conforms == diag = <<>>
(* Signatures of recorded known findings (known-findings.txt, passed in the header of the trace file) do not stop the
   validation: TLC prints one KNOWN-HIT line per occurrence, which the harness turns into the KNOWN-FINDING report; any
   other entry of pviol violates the invariant. *)
KnownSigs == IF "known" \in DOMAIN Hdr THEN {<<Hdr.known[i][1], Hdr.known[i][2]>> : i \in 1..Len(Hdr.known)} ELSE {}
NoPropertyViolation == \A i \in 1..Len(pviol) : <<pviol[i][1], pviol[i][2]>> \in KnownSigs /\ PrintT(<<"KNOWN-HIT", pviol[i][1], pviol[i][2], l - 1>>)
C06_ParityValid == dmg \/ ParityValid(C, par)
C06_MapSane == MapSane(C)
Accepted == TLCGet("stats").diameter = Len(TraceLog)
=============================================================================
