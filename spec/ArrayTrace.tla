----------------------------- MODULE ArrayTrace -----------------------------
(***************************************************************************)
(* Trace validation of command-level traces recorded from the real binary  *)
(* (DESIGN.md section 5 (B1)).  Every line carries the full projected      *)
(* state after the action.  The specification is deterministic given the   *)
(* logged arguments, so each step is checked as                            *)
(*        logged_post = Command(real_pre, args)                            *)
(* and the trace always continues from the *real* state.  A mismatch is    *)
(* recorded in `diag` (INVARIANT Conforms), so that TLC's error trace      *)
(* shows predicted and observed values.  The state invariants of the       *)
(* properties are evaluated on every real state of the trace.              *)
(***************************************************************************)
EXTENDS Naturals, Sequences, FiniteSets, TLC, Json, IOUtils

TraceFile == IF "TRACE" \in DOMAIN IOEnv THEN IOEnv.TRACE ELSE "trace.ndjson"
TraceLog == ndJsonDeserialize(TraceFile)
Hdr == TraceLog[1]

D == {Hdr.D[i] : i \in 1..Len(Hdr.D)}
NP == Hdr.NP
BS == Hdr.BS
VLen == Hdr.vlen
NameOrder == Hdr.names

INSTANCE Array

VARIABLES l, fs, C, par, diag, clean, snap, dmg
vars == <<l, fs, C, par, diag, clean, snap, dmg>>

(* ---- conversion of logged state ---- *)
LoggedC(s) == [cf |-> s.cf, del |-> s.del, info |-> s.info]

(* logged parity cell: [c |-> <<vector, ...>>] (candidates) ; vector = record over D *)
CellOf(cands, prev) ==
    IF Len(cands) = 0 THEN JunkCell
    ELSE IF prev.k = "V" /\ \E i \in 1..Len(cands) : cands[i] = prev.w THEN prev
    ELSE [k |-> "V", w |-> cands[1]]
LoggedPar(s, prev) ==
    [lv \in Levels |-> [q \in 1..Len(s.par[lv]) |->
        CellOf(s.par[lv][q], IF q <= Len(prev[lv]) THEN prev[lv][q] ELSE JunkCell)]]

(* does the predicted parity agree with what is on disk?  "J" in the model = unspecified *)
ParAgrees(pred, s) ==
    \A lv \in Levels :
       /\ Len(pred[lv]) = Len(s.par[lv])
       /\ \A q \in 1..Len(pred[lv]) :
             pred[lv][q].k = "V" => \E i \in 1..Len(s.par[lv][q]) : s.par[lv][q][i] = pred[lv][q].w
(* the state to continue from: the predicted vector where it is among the candidates, the logged one otherwise *)
ParMerge(pred, s) ==
    [lv \in Levels |-> [q \in 1..Len(s.par[lv]) |->
        CellOf(s.par[lv][q], IF q <= Len(pred[lv]) THEN pred[lv][q] ELSE JunkCell)]]

SameVal(a, b) == a = b \/ (IsJunkVal(a) /\ IsJunkVal(b))
SameFile(f, g) == f.sz = g.sz /\ f.mt = g.mt /\ Len(f.b) = Len(g.b) /\ \A i \in 1..Len(f.b) : SameVal(f.b[i], g.b[i])
SameFs(a, b) == \A d \in D : DOMAIN a[d] = DOMAIN b[d] /\ \A n \in DOMAIN a[d] : IsUnrec(n) \/ SameFile(a[d][n], b[d][n])

ToSet(s) == {s[i] : i \in 1..Len(s)}

(* differences between a predicted and an observed content state, for the diagnosis *)
DiffC(p, o) ==
    [files |-> {<<d, n, IF n \in DOMAIN p.cf[d] THEN p.cf[d][n] ELSE "absent", IF n \in DOMAIN o.cf[d] THEN o.cf[d][n] ELSE "absent">> :
                  <<d, n>> \in {x \in UNION {{<<d, n>> : n \in DOMAIN p.cf[d] \cup DOMAIN o.cf[d]} : d \in D} :
                      ~(x[2] \in DOMAIN p.cf[x[1]] /\ x[2] \in DOMAIN o.cf[x[1]] /\ p.cf[x[1]][x[2]] = o.cf[x[1]][x[2]])}},
     del |-> {<<d, p.del[d], o.del[d]>> : d \in {e \in D : p.del[e] # o.del[e]}},
     info |-> IF p.info = o.info THEN <<>> ELSE <<p.info, o.info>>]

(* ---- properties on real states ---- *)
CleanSynced(c, f) == ~ParityInvalid(c) /\ NoDifference(c, f)

Init ==
    /\ l = 2
    /\ fs = Hdr.state.fs
    /\ C = LoggedC(Hdr.state)
    /\ par = LoggedPar(Hdr.state, [lv \in Levels |-> <<>>])
    /\ diag = <<>>
    /\ clean = FALSE
    /\ snap = Hdr.state.fs
    /\ dmg = FALSE

Ev == TraceLog[l]
IsEvent(e) == l <= Len(TraceLog) /\ TraceLog[l].e = e

Follow(s, predpar) ==
    /\ l' = l + 1
    /\ fs' = s.fs
    /\ C' = LoggedC(s)
    /\ par' = ParMerge(predpar, s)

(* environment: user edits, corruption, loss.  Content files are not touched by these events. *)
EnvStep ==
    /\ IsEvent("Env")
    /\ Follow(Ev.state, par)
    /\ diag' = IF LoggedC(Ev.state) = C THEN <<>> ELSE <<"Env changed content", l>>
    /\ clean' = FALSE
    /\ dmg' = (dmg \/ Ev.dmg)
    /\ UNCHANGED snap

SrcsOf(a) == a.srcs

SyncStep ==
    /\ IsEvent("Sync")
    /\ LET a == Ev.args
           fs1 == IF "fs1" \in DOMAIN Ev THEN Ev.fs1 ELSE fs
           r == SyncResult(C, fs, fs1, par, a.now, a.opts, SrcsOf(a))
           okC == r.C = LoggedC(Ev.state)
           okP == ParAgrees(r.par, Ev.state)
           okO == IF r.out.exit \in {"refused", "abort"} THEN Ev.out.exit = "stopped"
                  ELSE r.out.exit = Ev.out.exit /\ r.out.err = Ev.out.err /\ r.out.silent = Ev.out.silent
           okF == Ev.state.fs = fs1
       IN /\ Follow(Ev.state, r.par)
          /\ diag' = IF okC /\ okP /\ okO /\ okF THEN <<>>
                     ELSE <<"Sync", l, [okC |-> okC, okP |-> okP, okO |-> okO, okF |-> okF],
                            IF ~okC THEN DiffC(r.C, LoggedC(Ev.state)) ELSE <<>>, IF ~okP THEN r.par ELSE <<>>, r.out>>
          /\ clean' = (Ev.out.exit = "ok" /\ CleanSynced(LoggedC(Ev.state), Ev.state.fs))
          /\ snap' = IF Ev.out.exit = "ok" THEN Ev.state.fs ELSE snap
          /\ UNCHANGED dmg

PresentOf(a) == ToSet(a.present)
SelOf(a) == [d \in D |-> ToSet(a.sel[d])]
PairSet(s) == {<<s[i][1], s[i][2]>> : i \in 1..Len(s)}

CheckStep ==
    /\ IsEvent("Check")
    /\ LET a == Ev.args
           r == CheckResult(C, fs, par, PresentOf(a), a.audit)
           okO == r.exit = Ev.out.exit /\ r.derr = PairSet(Ev.out.derr) /\ (a.audit \/ r.perr = PairSet(Ev.out.perr))
           okS == LoggedC(Ev.state) = C /\ Ev.state.fs = fs /\ ParAgrees(par, Ev.state)
       IN /\ Follow(Ev.state, par)
          /\ diag' = IF okO /\ okS THEN <<>> ELSE <<"Check", l, [okO |-> okO, okS |-> okS], r, Ev.out>>
          /\ UNCHANGED <<clean, snap, dmg>>

FixStep ==
    /\ IsEvent("Fix")
    /\ LET a == Ev.args
           r == FixResult(C, fs, par, PresentOf(a), SelOf(a))
           okF == SameFs(r.fs, Ev.state.fs)
           okP == ParAgrees(r.par, Ev.state)
           okC == LoggedC(Ev.state) = C
           okO == /\ r.out.exit = Ev.out.exit
                  /\ r.out.unrec = PairSet(Ev.out.unrec)
                  /\ r.out.recovered = PairSet(Ev.out.recovered)
       IN /\ Follow(Ev.state, r.par)
          /\ diag' = IF okF /\ okP /\ okC /\ okO THEN <<>>
                     ELSE <<"Fix", l, [okF |-> okF, okP |-> okP, okC |-> okC, okO |-> okO],
                            IF ~okF THEN r.fs ELSE <<>>, IF ~okP THEN r.par ELSE <<>>, r.out, Ev.out>>
          /\ UNCHANGED <<clean, snap, dmg>>

ScrubStep ==
    /\ IsEvent("Scrub")
    /\ LET a == Ev.args
           r == ScrubResult(C, fs, par, PlanSel(C, a.plan), a.now, PresentOf(a))
           okC == r.C = LoggedC(Ev.state)
           okS == Ev.state.fs = fs /\ ParAgrees(par, Ev.state)
           okO == r.out.exit = Ev.out.exit /\ r.out.derr = PairSet(Ev.out.derr) /\ r.out.perr = PairSet(Ev.out.perr)
       IN /\ Follow(Ev.state, par)
          /\ diag' = IF okC /\ okS /\ okO THEN <<>> ELSE <<"Scrub", l, [okC |-> okC, okS |-> okS, okO |-> okO], IF ~okC THEN DiffC(r.C, LoggedC(Ev.state)) ELSE <<>>, r.out, Ev.out>>
          /\ UNCHANGED <<clean, snap, dmg>>

DiffStep ==
    /\ IsEvent("Diff")
    /\ LET r == DiffResult(C, fs, <<>>)
           okS == LoggedC(Ev.state) = C /\ Ev.state.fs = fs /\ ParAgrees(par, Ev.state)
       IN /\ Follow(Ev.state, par)
          /\ diag' = IF r.exit = Ev.out.exit /\ okS THEN <<>> ELSE <<"Diff", l, r, okS>>
          /\ UNCHANGED <<clean, snap, dmg>>

(* a new execution in the same file (same D, NP) *)
ResetStep ==
    /\ IsEvent("Reset")
    /\ l' = l + 1
    /\ fs' = Ev.state.fs
    /\ C' = LoggedC(Ev.state)
    /\ par' = LoggedPar(Ev.state, [lv \in Levels |-> <<>>])
    /\ diag' = <<>>
    /\ clean' = FALSE
    /\ snap' = Ev.state.fs
    /\ dmg' = FALSE

Next == EnvStep \/ SyncStep \/ CheckStep \/ FixStep \/ ScrubStep \/ DiffStep \/ ResetStep
Spec == Init /\ [][Next]_vars

(* ---- what TLC checks ---- *)
Conforms == diag = <<>>
C06_ParityValid == dmg \/ ParityValid(C, par)
C06_MapSane == MapSane(C)
Accepted == TLCGet("stats").diameter = Len(TraceLog)
=============================================================================
