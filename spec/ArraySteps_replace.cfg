SPECIFICATION Spec
CONSTANTS
  D = {"0", "1"}
  NP = 2
  Copies = 2
  QMax = 2
  Pending = "replace"
  AutosaveMode = "none"
  FaultMode = "none"
  Mono = FALSE
CHECK_DEADLOCK FALSE
INVARIANT DataUntouched
INVARIANT CrashConsistent
INVARIANT ResumeConverges
