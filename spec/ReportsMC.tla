----------------------------- MODULE ReportsMC -----------------------------
(***************************************************************************)
(* Sanity of the report functions of Reports.tla on all small recorded     *)
(* states of three families (Kind = "dup" | "status" | "pool").  TLC       *)
(* enumerates the states as initial states; there are no transitions.      *)
(***************************************************************************)
EXTENDS Reports

CONSTANTS Kind,       \* "dup" | "status" | "pool"
          Small       \* TRUE: reduced families (quick tier)
VARIABLE st
MCVLen == [x \in {"s1"} |-> 10]
MCNames == <<"a", "b", "s/a", "s/t/b">>
MCNoLinks == [d \in D |-> <<>>]
MCNoInfoSeq(n) == [q \in 1..n |-> NoInfo]

(* ---------------------------------------------------------------- dup / list *)
Contents == IF Small THEN {<<>>, <<"v1">>, <<"s1">>, <<"v1", "v2">>}
            ELSE {<<>>, <<"v1">>, <<"v2">>, <<"s1">>, <<"v1", "v2">>, <<"v1", "s1">>, <<"v2", "v1">>}
Modes == {"clean", "rep", "chg", "mixed"}
SizeOfContent(b) == SumF([i \in 1..Len(b) |-> LenOf(b[i])])
StOf(m, i) == CASE m = "clean" -> "BLK" [] m = "rep" -> "REP" [] m = "chg" -> (IF i = 1 THEN "CHG" ELSE "BLK")
                [] OTHER -> (IF i = 1 THEN "BLK" ELSE "REP")
(* a recorded file with content b; a CHG block carries the hash of what was there before ("v9") *)
MkFile(b, m, base, stamp) ==
    [sz |-> SizeOfContent(b), mt |-> stamp,
     bl |-> [i \in 1..Len(b) |-> [pos |-> base + i - 1, st |-> StOf(m, i),
                                  h |-> IF StOf(m, i) = "CHG" THEN "v9" ELSE HashOf(b[i], BlkLen(SizeOfContent(b), i))]]]
Absent == [b |-> <<>>, m |-> "absent"]
Slot == {[b |-> b, m |-> m] : b \in Contents, m \in Modes} \cup {Absent}
SmallSlot == {Absent, [b |-> <<"v1">>, m |-> "clean"], [b |-> <<"v1", "v2">>, m |-> "clean"]}
DupParts == Slot
DupGen(x) == {[s1 |-> x, s2 |-> y, s3 |-> z, s4 |-> w] : y \in Slot, z \in Slot, w \in SmallSlot}
DupC(g) ==
    LET f(s, base, stamp) == MkFile(s.b, s.m, base, stamp)
        d0 == (IF g.s1 = Absent THEN <<>> ELSE [n \in {"a"} |-> f(g.s1, 0, <<1, 0>>)]) @@
              (IF g.s2 = Absent THEN <<>> ELSE [n \in {"b"} |-> f(g.s2, 2, <<2, 5>>)])
        d1 == (IF g.s3 = Absent THEN <<>> ELSE [n \in {"a"} |-> f(g.s3, 0, <<1, 0>>)]) @@
              (IF g.s4 = Absent THEN <<>> ELSE [n \in {"b"} |-> f(g.s4, 2, <<3, 7>>)])
    IN [cf |-> [d \in D |-> IF d = "0" THEN d0 ELSE d1],
        del |-> [d \in D |-> [q \in 1..4 |-> "NONE"]],
        info |-> [q \in 1..4 |-> [p |-> TRUE, t |-> 8, bad |-> FALSE, js |-> TRUE]]]
SlotOf(g, x) == IF x = <<"0", "a">> THEN g.s1 ELSE IF x = <<"0", "b">> THEN g.s2 ELSE IF x = <<"1", "a">> THEN g.s3 ELSE g.s4
CleanGen(g) == \A s \in {g.s1, g.s2, g.s3, g.s4} : s = Absent \/ s.m \in {"clean", "rep"}

AllChg(C) == [C EXCEPT !.cf = [d \in D |-> [n \in DOMAIN C.cf[d] |->
                 [C.cf[d][n] EXCEPT !.bl = [i \in 1..Len(C.cf[d][n].bl) |-> [C.cf[d][n].bl[i] EXCEPT !.st = "CHG", !.h = "INVALID"]]]]]]

DupSane ==
    LET g == st.g
        C == DupC(g)
        cand == DupCand(C)
        cls == DupClasses(C)
        G == DupGroups(C)
        rank(x) == DiskRank(x[1]) * 2 + (IF x[2] = "a" THEN 0 ELSE 1)
        low(K) == CHOOSE x \in K : \A y \in K : rank(x) <= rank(y)
        any(K) == CHOOSE x \in K : TRUE
        star == DupStar(C, low)
    IN \* a partition of the candidates
       /\ UNION cls = cand
       /\ \A K \in cls : K # {}
       /\ \A K1 \in cls : \A K2 \in cls : K1 = K2 \/ K1 \cap K2 = {}
       \* never an empty file, never a file with a block without up-to-date hash
       /\ \A x \in RFiles(C) : (SlotOf(g, x).b = <<>> \/ SlotOf(g, x).m = "chg") => x \notin cand
       /\ \A x \in RFiles(C) : (SlotOf(g, x).b # <<>> /\ SlotOf(g, x).m # "chg") => x \in cand
       \* same class <=> identical contents (always for candidates; on a clean array every non-empty file is a candidate)
       /\ \A x \in cand : \A y \in cand : (\E K \in cls : x \in K /\ y \in K) <=> SlotOf(g, x).b = SlotOf(g, y).b
       /\ CleanGen(g) => cand = {x \in RFiles(C) : SlotOf(g, x).b # <<>>}
       \* the report relation accepts every star report, whatever the representative, and the counters agree with it
       /\ DupReportOKG(G, star)
       /\ DupReportOKG(G, DupStar(C, any))
       /\ Card(star) = DupCount(C)
       \* ... and rejects a report with one line missing or one false line
       /\ \A e \in star : ~DupReportOKG(G, star \ {e})
       /\ \A x \in cand : \A y \in cand : (x # y /\ ~SameHashes(C, x, y)) => ~DupReportOKG(G, star \cup {<<x, y>>})
       /\ \A x \in RFiles(C) \ cand : \A y \in RFiles(C) : x # y => ~DupReportOKG(G, star \cup {<<x, y>>})

ListSane ==
    LET C == DupC(st.g)
        L == [d \in D |-> IF d = "0" THEN [n \in {"l"} |-> [k |-> "symlink", to |-> "a"]] ELSE <<>>]
    IN /\ ListOf(C, L) = ListOf(AllChg(C), L)                \* insensitive to block states and hashes
       /\ ListOf(C, L) = ListOf(ClearPast(C), L)
       /\ ListOf(C, L).file_count = Card(ListOf(C, L).files)
       /\ ListOf(C, L).link_count = 1
       /\ \A x \in RFiles(C) : \E f \in ListOf(C, L).files : f.d = x[1] /\ f.n = x[2] /\ f.sz = FileOf(C, x).sz /\ <<f.s, f.ns>> = FileOf(C, x).mt
       /\ \A f \in ListOf(C, L).files : <<f.d, f.n>> \in RFiles(C)
       /\ DupClasses(AllChg(C)) = {}                          \* no hash, no duplicate

(* ---------------------------------------------------------------- status *)
Kinds == {"E", "BLK", "CHG", "DEL"}
Infos == {"none", "scrubbed", "new", "bad"}
StatusParts == [1..3 -> Kinds]
StatusGen(a) == {[k0 |-> a, k1 |-> b, inf |-> i] : b \in [1..2 -> IF Small THEN {"E", "CHG", "REP"} ELSE Kinds \cup {"REP"}],
                                                    i \in [1..3 -> IF Small THEN {"none", "new", "bad"} ELSE Infos]}
FilePos(k) == {q \in DOMAIN k : k[q] \in {"BLK", "CHG", "REP"}}
MkStatusFile(k) ==
    LET P == FilePos(k)
        seq == SortSeq(SelectSeq([q \in DOMAIN k |-> q], LAMBDA q : q \in P), LAMBDA a, b : a < b)
    IN [sz |-> Len(seq) * BS, mt |-> <<4, 0>>, bl |-> [i \in 1..Len(seq) |-> [pos |-> seq[i] - 1, st |-> k[seq[i]], h |-> "v1"]]]
StatusC(g) ==
    LET kk(d) == IF d = "0" THEN g.k0 ELSE g.k1
    IN [cf |-> [d \in D |-> IF FilePos(kk(d)) = {} THEN <<>> ELSE [n \in {"a"} |-> MkStatusFile(kk(d))]],
        del |-> [d \in D |-> [q \in 1..3 |-> IF q \in DOMAIN kk(d) /\ kk(d)[q] = "DEL" THEN "v7" ELSE "NONE"]],
        info |-> [q \in 1..3 |-> CASE g.inf[q] = "none" -> NoInfo
                                   [] g.inf[q] = "scrubbed" -> [p |-> TRUE, t |-> 8, bad |-> FALSE, js |-> FALSE]
                                   [] g.inf[q] = "new" -> [p |-> TRUE, t |-> 8, bad |-> FALSE, js |-> TRUE]
                                   [] OTHER -> [p |-> TRUE, t |-> 86400 * 3 + 16, bad |-> TRUE, js |-> FALSE]]]
StatusSane ==
    LET C == StatusC(st.g)
        S == StatusOf(C, 86400 * 5)
        B == S.blocks
    IN /\ S.block_count = AllocatedMax(C)
       /\ (S.has_unsynced = 0) <=> ~ParityInvalid(C)             \* ties the counter to the predicate sync's guards use
       /\ S.has_unsynced = Card({p \in 0..(AllocatedMax(C) - 1) : (\E d \in D : HasFile(BlockAtSlow(C, d, p))) /\ (\E d \in D : InvalidParity(BlockAtSlow(C, d, p)))})
       /\ \A q \in 1..Len(B) : B[q].bad => B[q].info
       /\ S.has_bad[1] = Card(S.bad_positions)
       /\ (S.has_bad[1] > 0) => (S.has_bad[2] \in S.bad_positions /\ S.has_bad[3] \in S.bad_positions /\ \A p \in S.bad_positions : S.has_bad[2] <= p /\ p <= S.has_bad[3])
       /\ S.has_unscrubbed <= S.info_count /\ S.info_count <= S.block_count
       /\ SumF([x \in S.info_times |-> x.n]) = S.info_count
       /\ S.file_block_count = Card(UNION {{<<d, x>> : x \in FileBlocks(C, d)} : d \in D})
       /\ S.file_count = Card(RFiles(C))
       /\ S.days[1] >= S.days[2] /\ S.days[2] >= S.days[3]
       /\ StatusOf(ClearPast(C), 0).blocks = StatusOf(C, 0).blocks   \* hashes do not matter
       /\ S.pct_unscrubbed <= 100 /\ S.pct_synced <= 100
       /\ S.block_count > 0 => ((S.pct_synced = 100) <=> (S.has_unsynced = 0))

(* ---------------------------------------------------------------- pool *)
Prefix == [d \in D |-> "/mnt/" \o d \o "/"]
RecA == {"absent", "f0", "f1", "both", "l0"}
RecSA == {"absent", "f0", "l1"}
RecSTB == {"absent", "f1"}
OldKinds == {"absent", "stale", "right", "foreign"}
PoolParts == [{"a", "s/a", "x", "s/x"} -> OldKinds]
PoolGen(o) == {[a |-> a, sa |-> sa, stb |-> stb, old |-> o, e |-> e] :
                 a \in RecA, sa \in RecSA, stb \in RecSTB, e \in SUBSET {"e", "e/f"}}
AFile == [sz |-> 0, mt |-> <<1, 0>>, bl |-> <<>>]
ALink == [k |-> "symlink", to |-> "elsewhere"]
PoolC(g) ==
    LET has(d, n) == \/ n = "a" /\ ((g.a = "f0" /\ d = "0") \/ (g.a = "f1" /\ d = "1") \/ g.a = "both")
                     \/ n = "s/a" /\ g.sa = "f0" /\ d = "0"
                     \/ n = "s/t/b" /\ g.stb = "f1" /\ d = "1"
    IN [cf |-> [d \in D |-> [n \in {m \in {"a", "s/a", "s/t/b"} : has(d, m)} |-> AFile]],
        del |-> [d \in D |-> <<>>], info |-> <<>>]
PoolL(g) == [d \in D |-> [n \in {m \in {"a", "s/a"} : (m = "a" /\ g.a = "l0" /\ d = "0") \/ (m = "s/a" /\ g.sa = "l1" /\ d = "1")} |-> ALink]]
PoolBefore(g) ==
    LET ent == {p \in DOMAIN g.old : g.old[p] # "absent"}
        dirs == UNION {Ancestors(p) : p \in ent} \cup g.e \cup UNION {Ancestors(p) : p \in g.e}
    IN [p \in ent \cup dirs |->
          IF p \in dirs THEN [k |-> "d", to |-> "", h |-> ""]
          ELSE CASE g.old[p] = "stale" -> [k |-> "l", to |-> "/nowhere/" \o p, h |-> ""]
                 [] g.old[p] = "right" -> [k |-> "l", to |-> Target(Prefix, "0", p), h |-> ""]
                 [] OTHER -> [k |-> "f", to |-> "", h |-> "content of " \o p]]
PoolSane ==
    LET C == PoolC(st.g)
        L == PoolL(st.g)
        P0 == PoolBefore(st.g)
        P1 == PoolOf(C, L, Prefix, P0)
    IN PoolFeasible(C, L, P0) =>
         /\ PoolOK(C, L, Prefix, P0, P1)
         /\ PoolOf(C, L, Prefix, P1) = P1                          \* idempotent
         /\ PoolOK(C, L, Prefix, P1, P1)
         /\ PoolOf(AllChg(C), L, Prefix, P0) = P1
         \* every link stands for a recorded path and points into a disk that records it
         /\ \A p \in LinksIn(P1) : \E d \in D : (p \in DOMAIN C.cf[d] \/ p \in DOMAIN L[d]) /\ P1[p].to = Prefix[d] \o p
         /\ \A x \in RFiles(C) \cup RLinks(L) : x[2] \in Foreign(P0) \/ x[2] \in LinksIn(P1)
         \* nothing empty is left, nothing foreign is lost
         /\ \A p \in DirsIn(P1) : \E q \in LinksIn(P1) \cup Foreign(P1) : p \in Ancestors(q)
         /\ \A p \in DOMAIN P0 : P0[p].k = "f" => (p \in DOMAIN P1 /\ P1[p] = P0[p])
         \* the relation rejects a kept stale link, a lost foreign file, a kept empty directory, a missing link
         /\ \A p \in LinksIn(P0) \ LinksIn(P1) : ~PoolOK(C, L, Prefix, P0, (p :> P0[p]) @@ P1)
         /\ \A p \in Foreign(P0) : ~PoolOK(C, L, Prefix, P0, [q \in DOMAIN P1 \ {p} |-> P1[q]])
         /\ \A p \in LinksIn(P1) : ~PoolOK(C, L, Prefix, P0, [q \in DOMAIN P1 \ {p} |-> P1[q]])
         /\ ("zz" \notin DOMAIN P1) => ~PoolOK(C, L, Prefix, P0, ("zz" :> [k |-> "d", to |-> "", h |-> ""]) @@ P1)

(* ---------------------------------------------------------------- *)
(* stage 0: one state per value of the first component; stage 1: all completions (explored in parallel) *)
Parts == CASE Kind = "dup" -> DupParts [] Kind = "status" -> StatusParts [] OTHER -> PoolParts
GenOf(x) == CASE Kind = "dup" -> DupGen(x) [] Kind = "status" -> StatusGen(x) [] OTHER -> PoolGen(x)
Init == st \in {[stage |-> 0, g |-> x] : x \in Parts}
Next == st.stage = 0 /\ st' \in {[stage |-> 1, g |-> y] : y \in GenOf(st.g)}
Spec == Init /\ [][Next]_st
Sane == st.stage = 1 => CASE Kind = "dup" -> DupSane /\ ListSane [] Kind = "status" -> StatusSane [] OTHER -> PoolSane
=============================================================================
