\* thorough tier: 5 slots, 2 readers, 1 writer, 6 positions, no failing task; with liveness (0.63 M distinct states)
SPECIFICATION FairSpec
CONSTANTS
  N = 5
  RD = 2
  RP = 0
  W = 1
  BlockStart = 0
  BlockMax = 7
  Enabled = {0, 1, 3, 4, 5, 6}
  SignalOutside = FALSE
  Spurious = TRUE
  ROutcomes <- OutSoftHard
  WOutcomes <- OutWSoft
  MaxFail = 0
  AllowSkip = TRUE
  AllowStop = TRUE
  AllowBail = FALSE
INVARIANTS TypeOK Asserts Ownership OnceInOrder Deterministic ErrorsAccountedR WaitSane
PROPERTY Termination
CHECK_DEADLOCK TRUE
