------------------------------- MODULE Filter -------------------------------
(***************************************************************************)
(* C18 - include/exclude rules, globbing and the selection options, as     *)
(* DOCUMENTED in snapraid.txt (7.4 content, 7.6 nohidden, 7.7 exclude/     *)
(* include, 8 PATTERN, options -f -d -m -e).  Nothing here is taken from   *)
(* cmdline/elem.c.                                                         *)
(*                                                                         *)
(* TLC enumerates rule lists (one state per list, one transition per       *)
(* appended rule) and writes for every state one JSON line with the        *)
(* verdict of every path of depth <= 3 over NAMES for every kind of entry. *)
(* harness/c/filter_conf.c executes every emitted case against the real    *)
(* filter_* functions of the implementation.                               *)
(*                                                                         *)
(* Strings are TLA+ strings; TLC supports Len, SubSeq and \o on them.      *)
(***************************************************************************)
EXTENDS Integers, Sequences, FiniteSets, TLC, IOUtils, Json

CONSTANTS MaxFull,    \* lists up to this length draw every rule from the whole pool
          MaxMedium,  \* longer lists, up to this length, draw every rule from MEDIUM only
          MaxSmall,   \* still longer lists, up to this length, draw every rule from SMALL only
          MaxHidden   \* with "nohidden": lists up to this length (whole pool)

VARIABLES rules,      \* sequence of rule numbers, see Pat/Inc below
          nohidden    \* 0/1: the "nohidden" configuration option

vars == <<rules, nohidden>>

Ch(s, i) == SubSeq(s, i, i)
Min(S) == CHOOSE x \in S : \A y \in S : x <= y

-----------------------------------------------------------------------------
(* 1. Globbing (section 8).                                                *)
(*    "*" any run of characters, "?" any one character, "[..]" a character *)
(*    class ("[a-z]" ranges; a leading "!" or "^" negates), "\" takes the  *)
(*    next character literally.  In the rooted forms the globbing          *)
(*    characters "never match a directory slash" (pathmode).  A leading    *)
(*    "." in a name is NOT special for the globbing (the manual gives it   *)
(*    a meaning only through "nohidden").                                  *)
(*    Not defined by the manual and therefore absent from the pool: a      *)
(*    trailing "\", an unterminated "[", escapes inside a class.           *)

ALPHA == "!*-./?[\\]^abcdefghijklmnopqrstuvwxyz"     \* ASCII order, for ranges
Ord(c) == CHOOSE i \in 1..Len(ALPHA) : Ch(ALPHA, i) = c

RECURSIVE InClass(_, _, _, _)
InClass(p, m, k, c) ==      \* is c a member of the class whose members are p[m..k-1]
  IF m >= k THEN FALSE
  ELSE IF m + 2 < k /\ Ch(p, m + 1) = "-"
       THEN (Ord(Ch(p, m)) <= Ord(c) /\ Ord(c) <= Ord(Ch(p, m + 2))) \/ InClass(p, m + 3, k, c)
       ELSE Ch(p, m) = c \/ InClass(p, m + 1, k, c)

Glob(p, s, pathmode) ==
  LET lp == Len(p)
      ls == Len(s)
      \* character j of s exists and a globbing character may consume it
      Free(j) == j <= ls /\ (pathmode => Ch(s, j) # "/")
      Neg(i) == i + 1 <= lp /\ Ch(p, i + 1) \in {"!", "^"}
      First(i) == IF Neg(i) THEN i + 2 ELSE i + 1
      \* a "]" right after the opening is a member, not the end
      Close(i) == LET cand == {k \in (First(i) + 1)..lp : Ch(p, k) = "]"}
                  IN IF cand = {} THEN 0 ELSE Min(cand)
      M[i \in 1..(lp + 1), j \in 1..(ls + 1)] ==
        IF i > lp THEN j > ls
        ELSE LET c == Ch(p, i) IN
          CASE c = "*" -> M[i + 1, j] \/ (Free(j) /\ M[i, j + 1])
            [] c = "?" -> Free(j) /\ M[i + 1, j + 1]
            [] c = "\\" /\ i < lp -> j <= ls /\ Ch(s, j) = Ch(p, i + 1) /\ M[i + 2, j + 1]
            [] c = "[" /\ Close(i) # 0 ->
                 /\ Free(j)
                 /\ InClass(p, First(i), Close(i), Ch(s, j)) # Neg(i)
                 /\ M[Close(i) + 1, j + 1]
            [] OTHER -> j <= ls /\ Ch(s, j) = c /\ M[i + 1, j + 1]
  IN M[1, 1]

-----------------------------------------------------------------------------
(* 2. The four pattern forms (section 8): FILE, DIR/, /PATH/FILE,          *)
(*    /PATH/DIR/.  An entry is a sequence of names from the disk root plus *)
(*    a flag telling whether its last name is a directory.                 *)

Rooted(t)  == Ch(t, 1) = "/"
DirForm(t) == Len(t) > 1 /\ Ch(t, Len(t)) = "/"
Body(t)    == SubSeq(t, IF Rooted(t) THEN 2 ELSE 1, IF DirForm(t) THEN Len(t) - 1 ELSE Len(t))

Join(c) == LET J[k \in 1..Len(c)] == IF k = 1 THEN c[1] ELSE J[k - 1] \o "/" \o c[k]
           IN J[Len(c)]

(* FILE        "any file named as FILE ... only to files and not to directories"      *)
(* DIR/        "any directory named DIR and everything inside ... only to directories" *)
(* /PATH/FILE  "the exact specified file path ... only to files"                      *)
(* /PATH/DIR/  "the exact specified directory path and everything inside"             *)
(* The directories of an entry are all its names but the last, and the last too if    *)
(* the entry is itself a directory.                                                   *)
RuleMatches(t, comps, isdir) ==
  LET n == Len(comps)
      lastdir == IF isdir THEN n ELSE n - 1
  IN IF DirForm(t)
     THEN IF Rooted(t)
          THEN \E k \in 1..lastdir : Glob(Body(t), Join(SubSeq(comps, 1, k)), TRUE)
          ELSE \E k \in 1..lastdir : Glob(Body(t), comps[k], FALSE)
     ELSE /\ ~isdir
          /\ IF Rooted(t) THEN Glob(Body(t), Join(comps), TRUE)
                          ELSE Glob(Body(t), comps[n], FALSE)

\* the manual's own examples (sections 7.7 and 8), as a sanity check of the definitions above
ASSUME ManualExamples ==
  /\ RuleMatches("*.unrecoverable", <<"x", "f.unrecoverable">>, FALSE)
  /\ ~RuleMatches("*.unrecoverable", <<"f.unrecoverable", "x">>, FALSE)
  /\ RuleMatches("/lost+found/", <<"lost+found", "f">>, FALSE)
  /\ ~RuleMatches("/lost+found/", <<"x", "lost+found", "f">>, FALSE)
  /\ RuleMatches("tmp/", <<"x", "tmp", "y", "f">>, FALSE)
  /\ ~RuleMatches("tmp/", <<"x", "tmp">>, FALSE)          \* a file named tmp
  /\ RuleMatches("tmp/", <<"x", "tmp">>, TRUE)            \* a directory named tmp
  /\ RuleMatches("*.mp3", <<"m", "n", "s.mp3">>, FALSE)
  /\ RuleMatches("/movies/", <<"movies", "a", "b.avi">>, FALSE)
  /\ RuleMatches("Thumbs.db", <<"p", "Thumbs.db">>, FALSE)
  /\ RuleMatches("\\$RECYCLE.BIN", <<"$RECYCLE.BIN">>, FALSE)
  /\ Glob("[a-z]", "q", FALSE) /\ ~Glob("[a-z]", "*", FALSE) /\ Glob("[!a-z]", "*", FALSE)
  /\ ~Glob("a*", "a/b", TRUE) /\ Glob("a*", "a/b", FALSE) /\ ~Glob("a?b", "a/b", TRUE)

-----------------------------------------------------------------------------
(* 3. The finite universe explored by TLC.                                 *)

NAMES == <<"a", "b", "ab", ".a", "*">>
N  == Len(NAMES)
NP == N + N * N + N * N * N

PATTERNS == <<
  \* FILE
  "a", "ab", "*", "?", "a*", "*b", "??", "[ab]", "[!a]", "[a-b]b", "\\*", ".*", "[!.]*", "[*]",
  \* DIR/
  "a/", "ab/", "*/", "?/", "a*/", "[!a]/", ".a/", "\\*/",
  \* /PATH/FILE
  "/a", "/*", "/a/b", "/a/*", "/*/a", "/*/*", "/a*", "/a?b", "/a[!a]b", "/a/b/a", "/*/*/*",
  "/ab/*/a", "/\\*", "/.a/*", "/*b/?",
  \* /PATH/DIR/
  "/a/", "/*/", "/a/b/", "/a/*/", "/*/b/", "/*/*/", "/a/b/a/", "/a*/", "/?/", "/[!a]*/", "/\\*/"
>>
P == Len(PATTERNS)

\* the reduced pools used for the longer lists (SMALL is a subset of MEDIUM)
SMALLTXT  == {"a", "*", "[!a]", "a/", "*/", "/a", "/a/*", "/*/*", "/a*", "/a/", "/a/b/", "/*/b/"}
MEDIUMTXT == SMALLTXT \cup {"?", "a*", "\\*", ".*", "ab/", "[!a]/", "/*", "/*/a", "/a?b", "/*/", "/a/*/", "/a*/"}
SMALL  == {p \in 1..P : PATTERNS[p] \in SMALLTXT}
MEDIUM == {p \in 1..P : PATTERNS[p] \in MEDIUMTXT}

\* rule number r: pattern Pat(r), "include" if odd, "exclude" if even
Pat(r) == ((r - 1) \div 2) + 1
Inc(r) == r % 2 = 1
ALLRULES    == 1..(2 * P)
MEDIUMRULES == {r \in ALLRULES : Pat(r) \in MEDIUM}
SMALLRULES  == {r \in ALLRULES : Pat(r) \in SMALL}

CompsOf(e) ==
  IF e <= N THEN <<NAMES[e]>>
  ELSE IF e <= N + N * N
       THEN LET k == e - N - 1 IN <<NAMES[(k \div N) + 1], NAMES[(k % N) + 1]>>
       ELSE LET k == e - N - N * N - 1
            IN <<NAMES[(k \div (N * N)) + 1], NAMES[((k \div N) % N) + 1], NAMES[(k % N) + 1]>>

\* tables: evaluated once (TLCEval materialises them), pure memoisation of the definitions above
PATHS  == TLCEval([e \in 1..NP |-> CompsOf(e)])
ANC    == TLCEval([e \in 1..NP |-> {a \in 1..NP : /\ Len(PATHS[a]) < Len(PATHS[e])
                                                  /\ PATHS[a] = SubSeq(PATHS[e], 1, Len(PATHS[a]))}])
MatchF == TLCEval([p \in 1..P |-> TLCEval([e \in 1..NP |-> RuleMatches(PATTERNS[p], PATHS[e], FALSE)])])
MatchD == TLCEval([p \in 1..P |-> TLCEval([e \in 1..NP |-> RuleMatches(PATTERNS[p], PATHS[e], TRUE)])])
HIDDEN == TLCEval([e \in 1..NP |-> \E k \in 1..Len(PATHS[e]) : Ch(PATHS[e][k], 1) = "."])

-----------------------------------------------------------------------------
(* 4. Decision (7.7): "All the patterns are processed in the specified     *)
(*    order.  If the first pattern that matches is an exclude one, the     *)
(*    file is excluded.  If it's an include one, the file is included.  If *)
(*    no pattern matches, the file is excluded if the last pattern         *)
(*    specified is an include, or included if the last pattern specified   *)
(*    is an exclude."  With no rule at all everything is included.         *)

Hit(r, e, isdir) == IF isdir THEN MatchD[Pat(r)][e] ELSE MatchF[Pat(r)][e]

Decide(rs, e, isdir, defaultInclude) ==
  LET hit == {i \in 1..Len(rs) : Hit(rs[i], e, isdir)}
  IN IF hit # {} THEN Inc(rs[Min(hit)])
     ELSE IF defaultInclude \/ rs = <<>> THEN TRUE
     ELSE ~Inc(rs[Len(rs)])

\* (a) A file or link, judged on its own full path: the literal reading of 7.7.
FlatFile(rs, e) == Decide(rs, e, FALSE, FALSE)

\* (b) A directory met while walking the tree: only directory forms can match it.  When none
\*     matches, it has to be entered whatever the last rule is - otherwise "include *.mp3" or
\*     `-f "*.mp3"` ("Checks only the .mp3 files") could never reach a file in a sub-directory.
EnterDir(rs, e) == Decide(rs, e, TRUE, TRUE)

\* (c) A directory as an object of its own (an empty directory recorded in the array) under the
\*     selection of check/fix: `-f DIR/` selects "DIR and everything inside", `-f FILE` is "applied
\*     only to files and not to directories".
SelectDir(rs, e) == Decide(rs, e, TRUE, FALSE)

\* (d) What the tree walk of "sync" yields: an entry is reached only through directories that are
\*     entered; "nohidden" "excludes all the hidden files and directory".
Reached(rs, h, e)  == /\ (h = 1 => ~HIDDEN[e])
                      /\ \A a \in ANC[e] : EnterDir(rs, a)
TreeFile(rs, h, e) == Reached(rs, h, e) /\ FlatFile(rs, e)
TreeDir(rs, h, e)  == Reached(rs, h, e) /\ EnterDir(rs, e)

\* the same verdicts for all paths at once (vectors indexed by path number; pure memoisation)
FlatVec(rs)   == TLCEval([e \in 1..NP |-> FlatFile(rs, e)])
EnterVec(rs)  == TLCEval([e \in 1..NP |-> EnterDir(rs, e)])
SelectVec(rs) == TLCEval([e \in 1..NP |-> SelectDir(rs, e)])
ReachVec(en, h) == TLCEval([e \in 1..NP |-> (h = 1 => ~HIDDEN[e]) /\ \A a \in ANC[e] : en[a]])

(* AMBIGUITY (reported as a finding of C18, see props/C18.py): the literal reading (a) and  *)
(* the walk (d) differ when an include rule matching a file precedes an exclude DIR-form    *)
(* rule matching one of its directories, e.g. "include *.txt / exclude tmp/" for            *)
(* tmp/x.txt: first matching pattern is an include (=> included by 7.7), but the directory  *)
(* "and everything inside" is excluded by the walk.  The manual does not say which wins,    *)
(* so for what "sync" takes both outcomes are allowed on exactly these cases; the           *)
(* functions themselves (filter_path = (a), filter_subdir = (b)) are checked exactly.       *)
SyncAllowed(rs, h, e) == {TreeFile(rs, h, e), (h = 1 => ~HIDDEN[e]) /\ FlatFile(rs, e)}

-----------------------------------------------------------------------------
(* 5. The tool's own files (7.4 and the property statement): a content     *)
(*    file placed on a data disk, its ".tmp" copy and its ".lock" file are *)
(*    never taken, whatever the rules say; nothing else is.                *)

OwnFile(contents, path) == \E c \in contents : path \in {c, c \o ".tmp", c \o ".lock"}

CONTENTSETS == << {"content"}, {"a/c", "content"} >>
CONTENTPROBES == <<"content", "content.tmp", "content.lock", "content.tmpx", "content.loc",
                   "content.tmp.lock", "xcontent", "conten", "a/content", "a/content.tmp",
                   "a/c", "a/c.tmp", "a/c.lock", "a/c.lock.tmp", "c", "c.tmp", "a/b", "a/b/c",
                   "a/b/c.tmp", "b/a/c">>
ContentCases ==
  [i \in 1..(Len(CONTENTSETS) * Len(CONTENTPROBES)) |->
     LET cs == CONTENTSETS[((i - 1) \div Len(CONTENTPROBES)) + 1]
         pr == CONTENTPROBES[((i - 1) % Len(CONTENTPROBES)) + 1]
     IN [contents |-> cs, path |-> pr, own |-> OwnFile(cs, pr)]]

-----------------------------------------------------------------------------
(* 6. Selection in check/fix (options -f -d -m -e): "only files matching   *)
(*    all the set of filters are selected"; several -f form a list of      *)
(*    include rules, several -d a set of disk names; -m: "only the files   *)
(*    missing/deleted from the array"; -e: "only files that have blocks    *)
(*    marked with silent or input/output errors".                          *)

Selected(hasF, matchF, hasD, matchD, optM, missing, optE, bad) ==
  /\ (hasF => matchF)
  /\ (hasD => matchD)
  /\ (optM => missing)
  /\ (optE => bad)

B2(i, k) == ((i \div (2 ^ k)) % 2) = 1
SelectTable ==
  [i \in 1..256 |->
     LET x == i - 1 IN
     [f |-> B2(x, 0), fm |-> B2(x, 1), d |-> B2(x, 2), dm |-> B2(x, 3),
      m |-> B2(x, 4), miss |-> B2(x, 5), e |-> B2(x, 6), bad |-> B2(x, 7),
      sel |-> Selected(B2(x, 0), B2(x, 1), B2(x, 2), B2(x, 3), B2(x, 4), B2(x, 5), B2(x, 6), B2(x, 7))]]

-----------------------------------------------------------------------------
(* 7. Emission.                                                            *)

OutFile == IOEnv.C18_OUT
AppendTxt == [format |-> "TXT", charset |-> "UTF-8", openOptions |-> <<"WRITE", "CREATE", "APPEND">>]

Bit(b, w) == IF b THEN w ELSE 0

\* per path: 1 = FlatFile, 2 = EnterDir, 4 = SelectDir, 8 = TreeFile, 16 = TreeDir
Line(rs, h, fl, en, se, re) ==
  ToJson([r |-> rs, h |-> h,
          v |-> [e \in 1..NP |-> Bit(fl[e], 1) + Bit(en[e], 2) + Bit(se[e], 4)
                                 + Bit(re[e] /\ fl[e], 8) + Bit(re[e] /\ en[e], 16)]])

Header == [names |-> NAMES, patterns |-> PATTERNS,
           small |-> [p \in 1..P |-> IF p \in SMALL THEN 1 ELSE 0],
           medium |-> [p \in 1..P |-> IF p \in MEDIUM THEN 1 ELSE 0],
           paths |-> [e \in 1..NP |-> Join(PATHS[e])],
           content |-> ContentCases, select |-> SelectTable]

ASSUME HeaderWritten == Serialize(ToJson(Header) \o "\n", OutFile, AppendTxt).exitValue = 0

-----------------------------------------------------------------------------
(* 8. State space: one state per rule list.                                *)

Init == rules = <<>> /\ nohidden \in {0, 1}

\* the (prefix closed) set of rule lists explored
InUniverse(rs, h) ==
  IF h = 1 THEN Len(rs) <= MaxHidden
  ELSE \/ Len(rs) <= MaxFull
       \/ Len(rs) <= MaxMedium /\ \A i \in 1..Len(rs) : rs[i] \in MEDIUMRULES
       \/ Len(rs) <= MaxSmall /\ \A i \in 1..Len(rs) : rs[i] \in SMALLRULES

Next ==
  /\ UNCHANGED nohidden
  /\ \E r \in ALLRULES :
        /\ InUniverse(Append(rules, r), nohidden)
        /\ rules' = Append(rules, r)

Spec == Init /\ [][Next]_vars

(* Checked in every state (i.e. for every rule list), with the verdict vectors of the state  *)
(* computed once and shared:                                                                *)

\* every state writes its line (the line is computed before Serialize is entered: the Java
\* override holds a global lock)
Emitted(fl, en, se, re) ==
  LET line == Line(rules, nohidden, fl, en, se, re) \o "\n"
  IN Len(line) > 1 /\ Serialize(line, OutFile, AppendTxt).exitValue = 0

(* Properties of the documented rules themselves, decided by TLC on every list:            *)
\* a directory that is not taken by the walk hides everything below it
PruneHidesAll(en, re) ==
  \A e \in 1..NP : \A a \in ANC[e] : ~(re[a] /\ en[a]) => ~re[e]

\* the vectors are what the definitions of section 4 say (spot check on the deepest paths)
VectorsFaithful(fl, en, re) ==
  \A e \in {NP - 2, NP - 31, N + 3} :
     /\ (re[e] /\ fl[e]) = TreeFile(rules, nohidden, e)
     /\ (re[e] /\ en[e]) = TreeDir(rules, nohidden, e)

\* with the ordering the manual recommends (every exclude before every include) the two
\* readings (a) and (d) coincide, i.e. the ambiguity needs an include before an exclude DIR/ rule
ExcludesFirst(rs) == \A i, j \in 1..Len(rs) : (~Inc(rs[i]) /\ Inc(rs[j])) => i < j
RecommendedOrderUnambiguous(fl, re) ==
  (ExcludesFirst(rules) /\ nohidden = 0) => \A e \in 1..NP : fl[e] => re[e]

\* only-exclude lists include exactly what no rule matches, only-include lists exactly what one does
PureLists(fl) ==
  LET allExc == rules # <<>> /\ \A i \in 1..Len(rules) : ~Inc(rules[i])
      allInc == rules # <<>> /\ \A i \in 1..Len(rules) : Inc(rules[i])
  IN (allExc \/ allInc) =>
       \A e \in 1..NP :
         LET m == \E i \in 1..Len(rules) : Hit(rules[i], e, FALSE)
         IN fl[e] = IF allExc THEN ~m ELSE m

\* a conjunct that fails names itself in TLC's output (TLC only reports "Checked is violated")
Named(name, cond) == cond \/ ~PrintT(<<"C18-SPEC-PROPERTY-FAILED", name>>)

Checked ==
  LET fl == FlatVec(rules)
      en == EnterVec(rules)
      se == SelectVec(rules)
      re == ReachVec(en, nohidden)
  IN /\ Named("PruneHidesAll", PruneHidesAll(en, re))
     /\ Named("VectorsFaithful", VectorsFaithful(fl, en, re))
     /\ Named("RecommendedOrderUnambiguous", RecommendedOrderUnambiguous(fl, re))
     /\ Named("PureLists", PureLists(fl))
     /\ Named("Emitted", Emitted(fl, en, se, re))
=============================================================================
