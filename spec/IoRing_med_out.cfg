\* thorough tier: unlock-then-signal discipline, no spurious wake-ups, 3 slots, 2 readers, 1 writer, 4 positions; with liveness (1.06 M distinct states)
SPECIFICATION FairSpec
CONSTANTS
  N = 3
  RD = 2
  RP = 0
  W = 1
  BlockStart = 0
  BlockMax = 5
  Enabled = {0, 1, 3, 4}
  SignalOutside = TRUE
  Spurious = FALSE
  ROutcomes <- OutSoftHard
  WOutcomes <- OutWSoft
  MaxFail = 1
  AllowSkip = TRUE
  AllowStop = TRUE
  AllowBail = FALSE
INVARIANTS TypeOK Asserts Ownership OnceInOrder Deterministic ErrorsAccountedR WaitSane
PROPERTY Termination
CHECK_DEADLOCK TRUE
