\* quick tier: every list of <= 2 rules over the whole pool (48 patterns x include/exclude),
\* every list of 3 rules over the small pool (12 patterns); with nohidden: lists of <= 1 rule
CONSTANTS
  MaxFull = 2
  MaxMedium = 2
  MaxSmall = 3
  MaxHidden = 1
INIT Init
NEXT Next
INVARIANT Checked
