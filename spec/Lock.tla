------------------------------- MODULE Lock -------------------------------
(***************************************************************************)
(* C14, last clause: "another command is already running on the same       *)
(* array".  Every command takes an exclusive flock on ONE lock file before *)
(* it reads the state and keeps it until it ends (snapraid.c lock_lock,    *)
(* state.c:876: "<first accessible content file>.lock").  The question the *)
(* model answers is which path: it has to be a function of the             *)
(* configuration alone.  Content copies come and go (a disk is replaced;   *)
(* every command that saves the state re-creates the missing ones), so a   *)
(* path chosen among the copies that EXIST at start is not stable: two     *)
(* commands can pick two files (ByExistence = TRUE: TLC finds it).         *)
(*                                                                         *)
(* Binding: the lock flows of harness/py/props/C14.py (a command stopped   *)
(* by the shim while holding the lock - also a sync started while the      *)
(* first copy is lost and stopped after it re-created it -, a second       *)
(* command started meanwhile, a command that has ended overlapping a       *)
(* holder) are Refused steps of ArrayTrace.tla.                            *)
(***************************************************************************)
EXTENDS Naturals, FiniteSets

CONSTANTS Procs,          \* commands started on the array
          NCopies,        \* content copies of the configuration, in its order: 1..NCopies
          ByExistence     \* FALSE: the code (first configured copy); TRUE: "first copy that exists", the unstable choice

VARIABLES pc,             \* pc[p] \in {"idle", "holding", "refused", "ended"}
          path,           \* path[p]: the lock file (index of the copy beside which it lies) chosen by p, 0 = none yet
          exists,         \* exists[c]: content copy c is on its disk
          saved           \* saved[p]: p has written the content files (all copies exist afterwards)

vars == <<pc, path, exists, saved>>
Copies == 1..NCopies

Init == /\ pc = [p \in Procs |-> "idle"]
        /\ path = [p \in Procs |-> 0]
        /\ exists \in [Copies -> BOOLEAN]
        /\ \E c \in Copies : exists[c]          \* at least one copy: the array has a state
        /\ saved = [p \in Procs |-> FALSE]

Holders(f) == {p \in Procs : pc[p] = "holding" /\ path[p] = f}

Choice == IF ByExistence /\ \E c \in Copies : exists[c]
          THEN CHOOSE c \in Copies : exists[c] /\ \A e \in Copies : exists[e] => c <= e
          ELSE 1

(* open + flock(LOCK_EX | LOCK_NB) on the chosen file: taken or refused, atomically *)
Start(p) == /\ pc[p] = "idle"
            /\ LET f == Choice
               IN /\ path' = [path EXCEPT ![p] = f]
                  /\ pc' = [pc EXCEPT ![p] = IF Holders(f) = {} THEN "holding" ELSE "refused"]
            /\ UNCHANGED <<exists, saved>>

(* a holder saves the state (sync before its stripes and at its end, scrub, touch, rehash): every copy is written *)
Save(p) == /\ pc[p] = "holding" /\ ~saved[p]
           /\ exists' = [c \in Copies |-> TRUE]
           /\ saved' = [saved EXCEPT ![p] = TRUE]
           /\ UNCHANGED <<pc, path>>

(* the process ends (or is killed): the kernel drops the flock; the lock file stays *)
End(p) == /\ pc[p] = "holding"
          /\ pc' = [pc EXCEPT ![p] = "ended"]
          /\ UNCHANGED <<path, exists, saved>>

(* a content copy is lost while no command runs (its disk is replaced) *)
Lose(c) == /\ \A p \in Procs : pc[p] # "holding"
           /\ exists[c] /\ \E e \in Copies \ {c} : exists[e]
           /\ exists' = [exists EXCEPT ![c] = FALSE]
           /\ UNCHANGED <<pc, path, saved>>

Next == (\E p \in Procs : Start(p) \/ Save(p) \/ End(p)) \/ (\E c \in Copies : Lose(c))
Spec == Init /\ [][Next]_vars

TypeOK == /\ pc \in [Procs -> {"idle", "holding", "refused", "ended"}]
          /\ path \in [Procs -> 0..NCopies]

(* C14: at most one command works on the array at any time *)
MutualExclusion == Cardinality({p \in Procs : pc[p] = "holding"}) <= 1
(* ... and a command is refused only when another one is running *)
RefusedOnlyWhenBusy == [][\A p \in Procs : (pc[p] = "idle" /\ pc'[p] = "refused") => \E q \in Procs \ {p} : pc[q] = "holding"]_vars
=============================================================================
