SPECIFICATION Spec
CONSTANTS
  Procs = {p1, p2, p3}
  NCopies = 3
  ByExistence = FALSE
INVARIANT TypeOK
INVARIANT MutualExclusion
PROPERTY RefusedOnlyWhenBusy
CHECK_DEADLOCK FALSE
