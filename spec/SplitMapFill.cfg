SPECIFICATION Spec
CONSTANTS
  MaxSize = 40
  Blocks = {1, 2, 4, 8}
INVARIANT Safe
INVARIANT Result
PROPERTY Terminates
CHECK_DEADLOCK FALSE
