------------------------------ MODULE ArrayMC ------------------------------
(***************************************************************************)
(* Exhaustive exploration of the array state machine of Array.tla for      *)
(* small constants (DESIGN.md 4.5, Array_small): every history of user     *)
(* edits, complete / interrupted / partially skipped syncs, damage, fix.   *)
(* The properties are evaluated in the actions and collected in `pviol`    *)
(* (same vocabulary as ArrayTrace.tla).                                    *)
(***************************************************************************)
EXTENDS Naturals, Sequences, FiniteSets, TLC

CONSTANTS D, NP, Names, MaxSteps, MaxDamage, MaxStamp, ScriptId, GoalId
Contents == {<<"v1">>, <<"v2">>, <<"s1">>, <<"v3", "s2">>}

BS == 4
VLen == [s1 |-> 2, s2 |-> 3]
NameOrder == <<"A", "B", "C">>

INSTANCE Array

VARIABLES fs, C, par, ghost, steps, ndmg, tick, pviol, last, clean, dmg, cov
vars == <<fs, C, par, ghost, steps, ndmg, tick, pviol, last, clean, dmg, cov>>

Size(b) == IF Len(b) = 0 THEN 0 ELSE (Len(b) - 1) * BS + LenOf(b[Len(b)])
EmptyC == [cf |-> [d \in D |-> <<>>], del |-> [d \in D |-> <<>>], info |-> <<>>]
Opts == [force_full |-> FALSE, force_empty |-> TRUE, force_zero |-> TRUE, nocopy |-> TRUE, kill_after |-> FALSE]
NoSrcs == [d \in D |-> <<>>]
Now == 8

Init ==
    /\ fs = [d \in D |-> <<>>]
    /\ C = EmptyC
    /\ par = [l \in Levels |-> <<>>]
    /\ ghost = [d \in D |-> <<>>]
    /\ steps = 0
    /\ ndmg = 0
    /\ tick = 1
    /\ pviol = <<>>
    /\ last = "init"
    /\ clean = FALSE
    /\ dmg = FALSE
    /\ cov = {}

AllFiles(c) == UNION {{<<d, n>> : n \in DOMAIN c.cf[d]} : d \in D}
WithFile(f, d, n, rec) == [f EXCEPT ![d] = [m \in DOMAIN f[d] \cup {n} |-> IF m = n THEN rec ELSE f[d][m]]]
WithoutFile(f, d, n) == [f EXCEPT ![d] = [m \in DOMAIN f[d] \ {n} |-> f[d][m]]]

(* ScriptId = "none": free exploration.  Otherwise only the named action sequence is followed (all argument
   choices explored): used to show in seconds that the model exhibits the announced counterexamples *)
Scripts == [F1s |-> <<"Write", "Sync", "Write", "SyncMid", "LoseFile", "Fix">>,
            F2 |-> <<"Write", "Sync", "Delete", "Write", "SyncKillAfterPresave", "LoseFile", "Fix">>,
            \* templates of histories for the coverage goals of the repair logic (witness generation)
            H1 |-> <<"Write", "Write", "Sync", "Write", "SyncKillAfterPresave", "LoseFile", "LoseFile", "Fix">>,
            H2 |-> <<"Write", "Write", "Sync", "Write", "SyncKillAfterParity", "LoseFile", "LoseFile", "Fix">>,
            H3 |-> <<"Write", "Write", "Sync", "Delete", "Write", "SyncKillAfterPresave", "LoseFile", "Fix">>,
            H4 |-> <<"Write", "Write", "Sync", "Write", "SyncMid", "LoseFile", "LoseFile", "Fix">>,
            H5 |-> <<"Write", "Write", "Sync", "CorruptBlock", "CorruptParity", "Fix">>,
            H6 |-> <<"Write", "Write", "Sync", "LoseParity", "LoseFile", "Fix">>,
            H7 |-> <<"Write", "Write", "Sync", "Write", "SyncKillAfterPresave", "CorruptBlock", "LoseFile", "Fix">>,
            H8 |-> <<"Write", "Write", "Sync", "Delete", "SyncKillAfterPresave", "LoseFile", "Fix">>,
            H9 |-> <<"Write", "Write", "Sync", "Write", "SyncKillAfterPresave", "Sync", "CorruptBlock", "Fix">>,
            none |-> <<>>]
Script == Scripts[ScriptId]
Step(name) == /\ steps < MaxSteps /\ steps' = steps + 1 /\ last' = name
              /\ (name = "Fix" \/ cov' = {})
              /\ (ScriptId = "none" \/ (steps + 1 <= Len(Script) /\ Script[steps + 1] = name))

(* ---- user edits ---- *)
Write(d, n, b) ==
    /\ Step("Write") /\ tick < MaxStamp
    /\ fs' = WithFile(fs, d, n, [b |-> b, mt |-> <<tick, 0>>, sz |-> Size(b)])
    /\ tick' = tick + 1
    /\ clean' = FALSE
    /\ pviol' = <<>>
    /\ UNCHANGED <<C, par, ghost, ndmg, dmg>>

Delete(d, n) ==
    /\ Step("Delete") /\ n \in DOMAIN fs[d]
    /\ fs' = WithoutFile(fs, d, n)
    /\ clean' = FALSE
    /\ pviol' = <<>>
    /\ UNCHANGED <<C, par, ghost, ndmg, tick, dmg>>

(* put back a recorded file exactly as it was when recorded (restore from a backup keeping the time stamp) *)
Restore(d, n) ==
    /\ Step("Restore") /\ n \in DOMAIN C.cf[d] /\ n \notin DOMAIN fs[d] /\ n \in DOMAIN ghost[d]
    /\ fs' = WithFile(fs, d, n, [b |-> ghost[d][n], mt |-> C.cf[d][n].mt, sz |-> C.cf[d][n].sz])
    /\ pviol' = <<>>
    /\ UNCHANGED <<C, par, ghost, ndmg, tick, clean, dmg>>

(* ---- sync: complete, with a file vanishing between scan and read, killed after the pre-save,
        killed after the parity update (content of the pre-save, parity of the end) ---- *)
GhostAfter(c1, L0, f) == [d \in D |-> [n \in DOMAIN c1.cf[d] |->
                             IF n \in Fresh(L0, f, d) /\ n \in DOMAIN f[d] THEN f[d][n].b
                             ELSE IF n \in DOMAIN ghost[d] THEN ghost[d][n] ELSE <<>>]]

C06(c, p) == IF ParityValid(c, p) /\ MapSane(c) THEN <<>> ELSE <<<<"C06", "parity-invalid-or-map", <<>>>>>>

SyncWith(name, fs1, kill, presave_only) ==
    /\ Step(name)
    /\ LET r == SyncResult(C, fs, fs1, par, Now, [Opts EXCEPT !.kill_after = kill], NoSrcs)
           c1 == r.C
           p1 == IF presave_only THEN Resize(par, Len(r.par[1])) ELSE r.par
       IN /\ C' = c1
          /\ par' = p1
          /\ ghost' = GhostAfter(c1, ClearPast(C), fs)
          /\ clean' = (r.out.exit = "ok" /\ ~kill /\ ~ParityInvalid(c1) /\ NoDifference(c1, fs) /\ ~dmg)
          /\ pviol' = IF dmg THEN <<>> ELSE C06(c1, p1)
    /\ UNCHANGED <<fs, ndmg, tick, dmg>>

SyncOK == SyncWith("Sync", fs, FALSE, FALSE)
SyncKillAfterParity == SyncWith("SyncKillAfterParity", fs, TRUE, FALSE)
SyncKillAfterPresave == SyncWith("SyncKillAfterPresave", fs, TRUE, TRUE)
SyncMid(d, n) == n \in DOMAIN fs[d] /\ SyncWith("SyncMid", WithoutFile(fs, d, n), FALSE, FALSE)

(* ---- damage ---- *)
Damage(name) == /\ Step(name) /\ ndmg < MaxDamage /\ ndmg' = ndmg + 1 /\ dmg' = TRUE /\ pviol' = <<>>
                /\ UNCHANGED <<C, ghost, tick, clean>>
LoseFile(d, n) == /\ n \in DOMAIN fs[d] /\ n \in DOMAIN C.cf[d] /\ Damage("LoseFile")
                  /\ fs' = WithoutFile(fs, d, n) /\ UNCHANGED par
CorruptBlock(d, n, i) == /\ n \in DOMAIN fs[d] /\ i \in 1..Len(fs[d][n].b) /\ LenOf(fs[d][n].b[i]) = BS /\ Damage("CorruptBlock")
                         /\ fs' = [fs EXCEPT ![d][n].b[i] = "J1"] /\ UNCHANGED par
CorruptParity(l, q) == /\ q \in 1..Len(par[l]) /\ Damage("CorruptParity")
                       /\ par' = [par EXCEPT ![l][q] = JunkCell] /\ UNCHANGED fs
LoseParity(l) == /\ Len(par[l]) > 0 /\ Damage("LoseParity") /\ par' = [par EXCEPT ![l] = <<>>] /\ UNCHANGED fs

(* ---- fix ---- *)
WantBlock(c, g, d, n, i) == LET b == c.cf[d][n].bl[i]
                            IN IF b.st \in {"BLK", "REP"} THEN b.h
                               ELSE IF n \in DOMAIN g[d] /\ i <= Len(g[d][n]) THEN g[d][n][i] ELSE "?"
C05_Sig(c, g, d, n, i) ==
    LET b == c.cf[d][n].bl[i]
    IN IF b.st = "CHG" /\ IsUnique(b.h) /\ b.h = WantBlock(c, g, d, n, i) THEN "F1-chg-pasthash-is-new-hash"
       ELSE IF b.st = "CHG" /\ IsUnique(b.h) /\ LenOf(b.h) # BlkLen(c.cf[d][n].sz, i) THEN "F2-chg-pasthash-other-length"
       ELSE "other"
C05_Fix(c, g, f0, f1, unrec) ==
    LET wrong == {y \in AllFiles(c) \X (1..2) :
                    LET d == y[1][1]
                        n == y[1][2]
                        i == y[2]
                    IN /\ i <= Len(c.cf[d][n].bl)
                       /\ <<d, n>> \notin unrec
                       /\ n \in DOMAIN f1[d]
                       /\ i <= Len(f1[d][n].b)
                       /\ f1[d][n].b[i] # WantBlock(c, g, d, n, i)
                       \* a block without a recorded hash that fix found readable and left alone (or only cut to the recorded size) is not detectable damage
                       /\ ~(c.cf[d][n].bl[i].st = "CHG" /\ n \in DOMAIN f0[d] /\ i <= Len(f0[d][n].b)
                            /\ f1[d][n].b[i] \in {f0[d][n].b[i], Written(f0[d][n].b[i], BlkLen(c.cf[d][n].sz, i))})}
    IN IF wrong = {} THEN <<>>
       ELSE LET y == CHOOSE y \in wrong : TRUE
            IN <<<<"C05", C05_Sig(c, g, y[1][1], y[1][2], y[2]), [file |-> y[1], blk |-> y[2], got |-> f1[y[1][1]][y[1][2]].b[y[2]],
                                                                  want |-> WantBlock(c, g, y[1][1], y[1][2], y[2])]>>>>

BlockWrong(c, f, d, n, i) ==
    LET b == c.cf[d][n].bl[i]
    IN \/ n \notin DOMAIN f[d] \/ i > Len(f[d][n].b)
       \/ (b.st \in {"BLK", "REP"} /\ HashOf(f[d][n].b[i], BlkLen(c.cf[d][n].sz, i)) # b.h)
DataDamage(c, f, p) == {d \in D : LET b == BlockAtSlow(c, d, p) IN HasFile(b) /\ BlockWrong(c, f, d, b.n, b.i)}
ParWrong(c, pr, p, lv) == ~(p + 1 <= Len(pr[lv]) /\ pr[lv][p + 1].k = "V" /\ pr[lv][p + 1].w = StripeVec(c, p))
WithinBounds(c, f, pr) == \A p \in 0..(AllocatedMax(c) - 1) :
    (\E d \in D : HasFile(BlockAtSlow(c, d, p))) =>
        Cardinality(DataDamage(c, f, p)) + Cardinality({lv \in Levels : ParWrong(c, pr, p, lv)}) <= NP
C01_Fix(c, f1, o) ==
    LET bad == {x \in AllFiles(c) :
                  \/ x[2] \notin DOMAIN f1[x[1]]
                  \/ f1[x[1]][x[2]].sz # c.cf[x[1]][x[2]].sz
                  \/ Len(f1[x[1]][x[2]].b) # Len(c.cf[x[1]][x[2]].bl)
                  \/ \E i \in 1..Len(c.cf[x[1]][x[2]].bl) : f1[x[1]][x[2]].b[i] # c.cf[x[1]][x[2]].bl[i].h}
    IN IF bad # {} THEN <<<<"C01", "fix-did-not-restore", bad>>>>
       ELSE IF o.unrec # {} \/ o.exit = "unrecoverable" THEN <<<<"C01", "fix-reported-unrecoverable", o.unrec>>>>
       ELSE <<>>

Fix ==
    /\ Step("Fix")
    /\ LET sel == [d \in D |-> DOMAIN C.cf[d]]
           r == FixResult(C, fs, par, Levels, sel)
       IN /\ fs' = r.fs
          /\ par' = r.par
          /\ cov' = UNION {r.R[p].path : p \in DOMAIN r.R}
          /\ pviol' = C05_Fix(C, ghost, fs, r.fs, r.out.unrec) \o
                      (IF clean /\ WithinBounds(C, fs, par) THEN C01_Fix(C, r.fs, r.out) ELSE <<>>)
    /\ UNCHANGED <<C, ghost, ndmg, tick, clean, dmg>>

(* ---- the rest of the command set (explored when Ext is TRUE: configuration ArrayMC_ext) ---- *)
Ext == FALSE
ExtOn == TRUE

(* rehash: schedule the hash migration *)
RehashCmd ==
    /\ Step("Rehash") /\ ~RehashInProgress(C) /\ \E q \in 1..Len(C.info) : C.info[q].p
    /\ C' = RehashMarked(C)
    /\ pviol' = IF dmg THEN <<>> ELSE C06(C', par)
    /\ UNCHANGED <<fs, par, ghost, ndmg, tick, clean, dmg>>

(* scrub of everything: never marks a stripe of an undamaged array, never touches parity or data *)
ScrubFull ==
    /\ Step("Scrub")
    /\ LET r == ScrubResult(C, fs, par, PlanSel(C, "full"), Now, {l \in Levels : Len(par[l]) > 0})
       IN /\ C' = r.C
          /\ pviol' = IF dmg THEN <<>>
                      ELSE C06(r.C, par) \o
                           (IF r.out.marked # {} THEN <<<<"C04", "scrub-marks-without-damage", r.out.marked>>>> ELSE <<>>)
    /\ UNCHANGED <<fs, par, ghost, ndmg, tick, clean, dmg>>

(* sync -R: every stable file is re-inserted *)
SyncRealloc ==
    /\ Step("SyncR")
    /\ LET r == SyncResult(C, fs, fs, par, Now, [force_realloc |-> TRUE] @@ Opts, NoSrcs)
       IN /\ C' = r.C
          /\ par' = r.par
          /\ ghost' = GhostAfter(r.C, ClearPast(C), fs)
          /\ clean' = (r.out.exit = "ok" /\ ~ParityInvalid(r.C) /\ NoDifference(r.C, fs) /\ ~dmg)
          /\ pviol' = IF dmg THEN <<>> ELSE C06(r.C, r.par)
    /\ UNCHANGED <<fs, ndmg, tick, dmg>>

(* fix under a filter: a selection of files (as -f / -d give), only missing files (-m), only files / stripes marked bad
   (-e / -b).  Files outside the selection are never written; what is written is right or reported (C05). *)
Untouched(f0, f1, c, ex) ==
    \A d \in D : \A n \in ex[d] : IF n \in DOMAIN f0[d] THEN n \in DOMAIN f1[d] /\ f1[d][n] = f0[d][n] ELSE n \notin DOMAIN f1[d]
FixWith(name, flt, allstripes) ==
    /\ Step(name)
    /\ LET r == FixRangeF(C, fs, par, {l \in Levels : l \notin flt.pex \/ Len(par[l]) > 0}, flt, <<>>, NoExt)
       IN /\ fs' = r.fs
          /\ par' = r.par
          /\ cov' = {}
          /\ pviol' = (IF allstripes THEN C05_Fix(C, ghost, fs, [d \in D |-> [n \in DOMAIN r.fs[d] \ flt.ex[d] |-> r.fs[d][n]]], r.out.unrec) ELSE <<>>) \o
                      (IF ~Untouched(fs, r.fs, C, flt.ex) THEN <<<<"C05", "wrote-unselected", flt.ex>>>> ELSE <<>>) \o
                      (IF \E l \in flt.pex : r.par[l] # par[l] THEN <<<<"C12", "fix-wrote-excluded-parity", flt.pex>>>> ELSE <<>>)
    /\ UNCHANGED <<C, ghost, ndmg, tick, clean, dmg>>
FixDisk(d) == FixWith("FixD", FilterOf(C, [NoFilter EXCEPT !.disks = {d}]), TRUE)
FixName(n) == FixWith("FixF", FilterOf(C, [NoFilter EXCEPT !.usenames = TRUE, !.names = [d \in D |-> {n}]]), TRUE)
FixMissing == FixWith("FixM", FilterOf(C, [NoFilter EXCEPT !.missing = TRUE, !.exists = [d \in D |-> DOMAIN fs[d]]]), TRUE)
FixBad(kind) == FixWith("FixE", FilterOf(C, [NoFilter EXCEPT !.bad = kind]), FALSE)

ExtNext == \/ RehashCmd \/ ScrubFull \/ SyncRealloc \/ FixMissing
           \/ \E d \in D : FixDisk(d)
           \/ \E n \in Names : FixName(n)
           \/ \E k \in {"file", "block"} : FixBad(k)

Next ==
    \/ (Ext /\ ExtNext)
    \/ \E d \in D, n \in Names, b \in Contents : Write(d, n, b)
    \/ \E d \in D, n \in Names : Delete(d, n) \/ Restore(d, n) \/ SyncMid(d, n) \/ LoseFile(d, n)
    \/ \E d \in D, n \in Names, i \in 1..2 : CorruptBlock(d, n, i)
    \/ \E l \in Levels : LoseParity(l) \/ \E q \in 1..3 : CorruptParity(l, q)
    \/ SyncOK \/ SyncKillAfterParity \/ SyncKillAfterPresave
    \/ Fix

Spec == Init /\ [][Next]_vars

NoPropertyViolation == pviol = <<>>
(* the two announced defects of C05 are reported separately so that anything else still fails the check *)
NoOtherViolation == pviol = <<>> \/ (pviol[1][1] = "C05" /\ pviol[1][2] \in {"F1-chg-pasthash-is-new-hash", "F2-chg-pasthash-other-length"})
NoF1 == ~(pviol # <<>> /\ pviol[1][2] = "F1-chg-pasthash-is-new-hash")
NoF2 == ~(pviol # <<>> /\ pviol[1][2] = "F2-chg-pasthash-other-length")
View == <<fs, C, par, ghost, ndmg, tick, pviol, clean, dmg, steps, cov>>
(* coverage goals: TLC searches a shortest history whose fix goes through the branch Goal (GoalId constant) *)
NoGoal == GoalId \notin cov
=============================================================================
