\* (state, now, bytes) lines of real content files (CF_LINES): EncodeRaw(state, now) = bytes, decoder agrees
\* module ContentFormatMC; needs witness_crc32c.json in the working directory (harness/py/cfmt.py write_crc_witness);
\* run through harness/py/cfspec.py, which copies the spec into a private directory under out/
CONSTANT Part = "check"
INIT Init
NEXT Next
INVARIANT JobInv
CHECK_DEADLOCK FALSE
