\* (state, now, bytes) lines of real content files (CF_LINES): EncodeRaw(state, now) = bytes, decoder agrees
CONSTANT Part = "check"
INIT Init
NEXT Next
INVARIANT JobInv
CHECK_DEADLOCK FALSE
