\* quick tier: scrub/dry shape: two data readers + one parity reader, no writers, 3 slots
SPECIFICATION FairSpec
CONSTANTS
  N = 3
  RD = 2
  RP = 1
  W = 0
  BlockStart = 0
  BlockMax = 5
  Enabled = {0, 1, 3, 4}
  SignalOutside = FALSE
  Spurious = TRUE
  ROutcomes <- OutSoftHard
  WOutcomes <- OutWSoft
  MaxFail = 1
  AllowSkip = TRUE
  AllowStop = TRUE
  AllowBail = FALSE
INVARIANTS TypeOK Asserts Ownership OnceInOrder Deterministic ErrorsAccountedR WaitSane
PROPERTY Termination
CHECK_DEADLOCK TRUE
