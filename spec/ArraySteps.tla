----------------------------- MODULE ArraySteps -----------------------------
(***************************************************************************)
(* Refinement of `sync` into the steps the code takes (DESIGN.md 4.2):     *)
(* scan, parity resize per level, pre-save (one rename per content copy),  *)
(* per stripe an in-memory Compute followed by asynchronous parity writes  *)
(* through per-level queues (write-behind of the io.c ring), optional      *)
(* autosave, end-of-run drain and final save.  A crash (kill -9) may occur *)
(* between any two steps; a parity write may fail (C08).                   *)
(*                                                                         *)
(* The order of the steps is the order of the code as it is:               *)
(*  - the autosave does not wait for the writer queues (sync.c:1302-1340)  *)
(*  - writer errors are position-less counters collected at the next       *)
(*    io_write_next (io.c), the last ones never (sync.c: loop exit)        *)
(*  - blocks are marked BLK at Compute time (sync.c:1179-1202)             *)
(* The per-stripe computation is Array!SyncStripe, the same operator that  *)
(* trace validation binds to the binary.                                   *)
(***************************************************************************)
EXTENDS Naturals, Sequences, FiniteSets, TLC

CONSTANTS D, NP, Copies, QMax, Pending, AutosaveMode, FaultMode, Mono

BS == 4
VLen == [s1 |-> 2, s2 |-> 3]
NameOrder == <<"A", "B", "C">>
INSTANCE Array

VARIABLES fs, par, cd, phase, M, R, bm, next, queue, saveimg, savenext, werr, collected, nerr, crashed, wrote, prev
vars == <<fs, par, cd, phase, M, R, bm, next, queue, saveimg, savenext, werr, collected, nerr, crashed, wrote, prev>>

Size(b) == IF Len(b) = 0 THEN 0 ELSE (Len(b) - 1) * BS + LenOf(b[Len(b)])
File(b, t) == [b |-> b, mt |-> <<t, 0>>, sz |-> Size(b)]
EmptyC == [cf |-> [d \in D |-> <<>>], del |-> [d \in D |-> <<>>], info |-> <<>>]
Opts == [force_full |-> FALSE, force_empty |-> TRUE, force_zero |-> TRUE, nocopy |-> TRUE, kill_after |-> FALSE]
NoSrcs == [d \in D |-> <<>>]
Now == 8

(* the synced base array: two files per disk, then the pending user changes of the scenario *)
Fs0 == [d \in D |-> IF d = "0" THEN [A |-> File(<<"v1", "s1">>, 1), C |-> File(<<"v2">>, 2)]
                    ELSE [A |-> File(<<"v3">>, 3), C |-> File(<<"v4", "s2">>, 4)]]
Base == SyncResult(EmptyC, Fs0, Fs0, [l \in Levels |-> <<>>], Now, Opts, NoSrcs)
Without(f, d, n) == [f EXCEPT ![d] = [m \in DOMAIN f[d] \ {n} |-> f[d][m]]]
With(f, d, n, rec) == [f EXCEPT ![d] = [m \in DOMAIN f[d] \cup {n} |-> IF m = n THEN rec ELSE f[d][m]]]
PendingFs(k) ==
    CASE k = "adds" -> With(With(Fs0, "0", "B", File(<<"v5", "v6">>, 5)), "1", "B", File(<<"v7">>, 6))
      [] k = "mixed" -> With(Without(With(Fs0, "0", "B", File(<<"v5">>, 5)), "1", "A"), "1", "C", File(<<"v8">>, 7))
      [] k = "replace" -> With(Without(Fs0, "0", "A"), "0", "B", File(<<"v5", "v6">>, 5))
      [] OTHER -> Fs0

Init ==
    /\ fs = PendingFs(Pending)
    /\ par = Base.par
    /\ cd = [c \in 1..Copies |-> Base.C]
    /\ phase = "idle"
    /\ M = EmptyC /\ R = <<>> /\ bm = 0 /\ next = 0
    /\ queue = [l \in Levels |-> <<>>]
    /\ saveimg = EmptyC /\ savenext = 0
    /\ werr = 0 /\ collected = 0 /\ nerr = 0
    /\ crashed = FALSE
    /\ wrote = {}
    /\ prev = fs

Running == ~crashed

(* ---- scan (in memory only) ---- *)
DoScan ==
    /\ Running /\ phase = "idle"
    /\ LET m == WithIndex(Scan(ClearPast(cd[1]), fs, NoSrcs, TRUE))
           n == AllocatedMax(m)
           rl == [l \in Levels |-> Len(par[l])]
       IN /\ M' = m
          /\ bm' = n
          /\ R' = [q \in 1..n |-> IF StripeEnabled(m, q - 1, FALSE)
                                  THEN SyncStripe(m, fs, Resize(par, n), q - 1, Now, FALSE, rl) ELSE <<>>]
    /\ phase' = "resize"
    /\ next' = 1          \* next parity level to resize
    /\ UNCHANGED <<fs, par, cd, queue, saveimg, savenext, werr, collected, nerr, crashed, wrote, prev>>

(* ---- parity resize, one level at a time (sync.c:1528) ---- *)
DoResize ==
    /\ Running /\ phase = "resize" /\ next <= NP
    /\ par' = [par EXCEPT ![next] = Resize(par, bm)[next]]
    /\ next' = next + 1
    /\ UNCHANGED <<fs, cd, phase, M, R, bm, queue, saveimg, savenext, werr, collected, nerr, crashed, wrote, prev>>
EndResize ==
    /\ Running /\ phase = "resize" /\ next > NP
    /\ phase' = "save" /\ saveimg' = Normalize(M) /\ savenext' = 1 /\ next' = 0
    /\ UNCHANGED <<fs, par, cd, M, R, bm, queue, werr, collected, nerr, crashed, wrote, prev>>

(* ---- content save: all copies are written and verified beside the old ones, then renamed in order ---- *)
SaveCopy ==
    /\ Running /\ savenext >= 1 /\ savenext <= Copies
    /\ cd' = [cd EXCEPT ![savenext] = saveimg]
    /\ savenext' = savenext + 1
    /\ UNCHANGED <<fs, par, phase, M, R, bm, next, queue, saveimg, werr, collected, nerr, crashed, wrote, prev>>
EndSave ==
    /\ Running /\ savenext = Copies + 1
    /\ savenext' = 0
    /\ phase' = CASE phase = "save" -> "stripes" [] phase = "autosave" -> "stripes" [] phase = "final" -> "done" [] OTHER -> phase
    /\ UNCHANGED <<fs, par, cd, M, R, bm, next, queue, saveimg, werr, collected, nerr, crashed, wrote, prev>>

(* ---- stripes ---- *)
Enabled(p) == p < bm /\ R[p + 1] # <<>>
FirstEn == IF \E q \in 0..(bm - 1) : Enabled(q) THEN Min({q \in 0..(bm - 1) : Enabled(q)}) ELSE bm
LastEn == IF \E q \in 0..(bm - 1) : Enabled(q) THEN Max({q \in 0..(bm - 1) : Enabled(q)}) ELSE bm
(* autosave after the first processed stripe ("first") ; failing parity write of level 1 at the first / of level NP
   at the last processed stripe *)
AutosaveAt == IF AutosaveMode = "first" THEN {FirstEn} ELSE {}
Faults == CASE FaultMode = "first" -> {<<1, FirstEn>>} [] FaultMode = "last" -> {<<NP, LastEn>>} [] OTHER -> {}
NextEnabled(p) == IF \E q \in p..(bm - 1) : Enabled(q) THEN Min({q \in p..(bm - 1) : Enabled(q)}) ELSE bm

MergeStripe(m, r, p) ==
    [cf |-> [d \in D |-> [n \in DOMAIN m.cf[d] |->
                [m.cf[d][n] EXCEPT !.bl = [i \in 1..Len(m.cf[d][n].bl) |->
                    IF m.cf[d][n].bl[i].pos = p THEN r.M.cf[d][n].bl[i] ELSE m.cf[d][n].bl[i]]]]],
     del |-> [d \in D |-> [q \in 1..Len(m.del[d]) |-> IF q = p + 1 THEN r.M.del[d][q] ELSE m.del[d][q]]],
     info |-> [q \in 1..Len(m.info) |-> IF q = p + 1 THEN r.M.info[q] ELSE m.info[q]]]

(* Compute(p): the main thread has read the stripe, updates the in-memory state and hands the parity blocks to
   the writers; the errors of earlier writes are collected here (io_write_next) *)
Compute ==
    /\ Running /\ phase = "stripes" /\ savenext = 0
    /\ LET p == NextEnabled(next) IN
       /\ p < bm
       /\ \A l \in Levels : Len(queue[l]) < QMax
       /\ LET r == R[p + 1] IN
          /\ M' = MergeStripe(M, r, p)
          /\ queue' = IF r.wrote THEN [l \in Levels |-> Append(queue[l], [p |-> p, cell |-> r.par[l][p + 1]])] ELSE queue
          /\ wrote' = IF r.wrote THEN wrote \cup {p} ELSE wrote
          /\ collected' = IF Mono THEN collected ELSE collected + werr      \* mono mode never counts them (io.c)
          /\ werr' = 0
          /\ nerr' = nerr + r.err + r.silent
          /\ next' = p + 1
          /\ phase' = IF p \in AutosaveAt THEN "autosave" ELSE "stripes"
          /\ saveimg' = IF p \in AutosaveAt THEN Normalize(MergeStripe(M, r, p)) ELSE saveimg
          /\ savenext' = IF p \in AutosaveAt THEN 1 ELSE 0
    /\ UNCHANGED <<fs, par, cd, R, bm, crashed, prev>>

(* a writer thread performs the oldest queued write of its level *)
WriterStep(l) ==
    /\ Running /\ queue[l] # <<>>
    /\ LET w == Head(queue[l]) IN
       IF <<l, w.p>> \in Faults
       THEN /\ werr' = werr + 1 /\ UNCHANGED par
       ELSE /\ par' = [par EXCEPT ![l][w.p + 1] = w.cell] /\ UNCHANGED werr
    /\ queue' = [queue EXCEPT ![l] = Tail(queue[l])]
    /\ UNCHANGED <<fs, cd, phase, M, R, bm, next, saveimg, savenext, collected, nerr, crashed, wrote, prev>>

(* end of the stripe loop: io_stop waits for the writers, then the final save *)
EndStripes ==
    /\ Running /\ phase = "stripes" /\ savenext = 0 /\ NextEnabled(next) >= bm
    /\ \A l \in Levels : queue[l] = <<>>
    /\ phase' = "final" /\ saveimg' = Normalize(M) /\ savenext' = 1
    /\ UNCHANGED <<fs, par, cd, M, R, bm, next, queue, werr, collected, nerr, crashed, wrote, prev>>

Crash ==
    /\ Running /\ phase # "done"
    /\ crashed' = TRUE
    /\ UNCHANGED <<fs, par, cd, phase, M, R, bm, next, queue, saveimg, savenext, werr, collected, nerr, wrote, prev>>

Next == DoScan \/ DoResize \/ EndResize \/ SaveCopy \/ EndSave \/ Compute \/ (\E l \in Levels : WriterStep(l)) \/ EndStripes \/ Crash
Spec == Init /\ [][Next]_vars
FairSpec == Spec /\ WF_vars(DoScan \/ DoResize \/ EndResize \/ SaveCopy \/ EndSave \/ Compute \/ EndStripes)
                 /\ \A l \in Levels : WF_vars(WriterStep(l))

(* ---- properties: every state is a possible crash state ---- *)
DataUntouched == fs = prev
(* C06/C07: whatever copy is loaded after a kill, its synced stripes have valid parity *)
CrashConsistent == \A c \in 1..Copies : ParityValid(cd[c], par) /\ MapSane(cd[c])
(* C07: running sync again from the crash state completes and re-establishes the clean state *)
ResumeConverges ==
    LET r == SyncResult(cd[1], fs, fs, par, Now, Opts, NoSrcs)
    IN r.out.exit = "ok" /\ ~ParityInvalid(r.C) /\ NoDifference(r.C, fs) /\ ParityValid(r.C, r.par)
(* C07: with only additions pending, every file synced before stays recoverable from any single lost device *)
LoseDisk(f, d) == [f EXCEPT ![d] = <<>>]
OldFilesRecoverable ==
    Pending = "adds" =>
      /\ \A d \in D : LET r == FixResult(cd[1], LoseDisk(fs, d), par, Levels, [e \in D |-> DOMAIN cd[1].cf[e]])
                      IN \A n \in DOMAIN Base.C.cf[d] : n \in DOMAIN r.fs[d] /\ r.fs[d][n].b = Fs0[d][n].b
(* C08: a stripe whose parity write failed is never recorded as synced and healthy, and the run fails *)
NoFalseProtection ==
    phase = "done" =>
      /\ \A x \in Faults : x[2] \in wrote => ~(AllSynced(cd[1], x[2]) /\ ~InfoAt(cd[1], x[2]).bad)
ErrorsReported == (phase = "done" /\ \E x \in Faults : x[2] \in wrote) => collected + nerr > 0
Done == <>(phase = "done" \/ crashed)
=============================================================================
