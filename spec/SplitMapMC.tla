----------------------------- MODULE SplitMapMC -----------------------------
(***************************************************************************)
(* C17: state machine around SplitMap!Chsize / Lookup, explored            *)
(* exhaustively by TLC: all sequences of at most MaxSteps steps of         *)
(*   Sync(t)  : the array grows or shrinks to t stripes: parity_chsize,    *)
(*              then the new stripes are written (sync.c:1440-1600);       *)
(*   Lose(s)  : the file of split s is lost;                               *)
(*   Fix      : parity_create + parity_chsize(recorded total) + rewrite of *)
(*              every stripe that does not read back + parity_truncate to  *)
(*              the valid size (check.c:1998-2090, parity.c:774-796);      *)
(*   JunkJunkTail: a file gets a junk block at its end (interrupted growth);  *)
(*   Drop/Add : the last split is removed from / a split is added to the   *)
(*              configuration (state.c:2770-2790: refused if in use);      *)
(*   NewLimits: only if VaryLimits: the free space of the parity disks     *)
(*              changes between two commands;                              *)
(* for 1..KMax splits, all per-split limits in LimitSet (aligned, not      *)
(* aligned, below one block, none), block size B units.                    *)
(*                                                                         *)
(* The content of a file is a sequence of tokens, one per block: p >= 0 =  *)
(* "the parity of stripe p", -1 = zeros from growing, -2 = junk.           *)
(***************************************************************************)
EXTENDS SplitMap

CONSTANTS KMax, MaxBlocks, LimitSet, VaryLimits, MaxSteps

VARIABLES k,        \* configured number of splits
          sizes,    \* recorded split sizes (content file)
          files,    \* files[s] = sequence of block tokens
          lims,     \* per-split limit (all KMax of them)
          total,    \* recorded number of stripes
          lost,     \* stripes whose parity file was lost and not yet fixed
          steps
vars == <<k, sizes, files, lims, total, lost, steps>>

Max2(a, b) == IF a > b THEN a ELSE b
Min2(a, b) == IF a < b THEN a ELSE b
FSizes == [s \in 1..k |-> B * Len(files[s])]
Lims == SubSeq(lims, 1, k)
SetLen(f, n) == [i \in 1..n |-> IF i <= Len(f) THEN f[i] ELSE -1]
Slot(szs, p) == Lookup(szs, p * B)
ReadIn(fl, szs, p) == LET x == Slot(szs, p)
                      IN IF x.s = 0 THEN -9
                         ELSE IF (x.o \div B) + 1 <= Len(fl[x.s]) THEN fl[x.s][(x.o \div B) + 1] ELSE -3
Read(p) == ReadIn(files, sizes, p)
(* write token p at the slot of every stripe p in P (pwrite extends a file that is too short) *)
WriteAll(fl, szs, P) ==
    [s \in 1..Len(fl) |->
        LET need == {(Slot(szs, p).o \div B) + 1 : p \in {q \in P : Slot(szs, q).s = s}}
            n == IF need = {} THEN Len(fl[s]) ELSE Max2(Len(fl[s]), CHOOSE m \in need : \A x \in need : x <= m)
        IN [i \in 1..n |-> IF \E p \in P : Slot(szs, p) = [s |-> s, o |-> (i - 1) * B]
                           THEN CHOOSE p \in P : Slot(szs, p) = [s |-> s, o |-> (i - 1) * B]
                           ELSE IF i <= Len(fl[s]) THEN fl[s][i] ELSE -1]]

Init == /\ k \in 1..KMax
        /\ sizes = [s \in 1..k |-> 0]
        /\ files = [s \in 1..k |-> <<>>]
        /\ lims \in [1..KMax -> LimitSet]
        /\ total = 0
        /\ lost = {}
        /\ steps = 0

Tick == steps < MaxSteps /\ steps' = steps + 1

Sync(t) ==
    /\ Tick /\ lost = {} /\ t # total
    /\ LET r == Chsize(sizes, FSizes, Lims, t * B)
           fl1 == [s \in 1..k |-> SetLen(files[s], r.fs[s] \div B)]
       IN /\ sizes' = r.sizes
          /\ total' = IF r.ok THEN t ELSE total
          /\ files' = IF r.ok THEN WriteAll(fl1, r.sizes, total..(t - 1)) ELSE fl1
    /\ UNCHANGED <<k, lims, lost>>

Lose(s) ==
    /\ Tick /\ s \in 1..k /\ sizes[s] > 0
    /\ files' = [files EXCEPT ![s] = <<>>]
    /\ lost' = lost \cup {p \in 0..(total - 1) : Slot(sizes, p).s = s}
    /\ UNCHANGED <<k, sizes, lims, total>>

Fix ==
    /\ Tick
    /\ LET r == Chsize(sizes, FSizes, Lims, total * B)
           fl1 == [s \in 1..k |-> SetLen(files[s], r.fs[s] \div B)]
           \* valid_size: the size found at open; lowered when the file is shrunk, not raised when it is grown (parity.c:537-539)
           valid1 == [s \in 1..k |-> Min2(FSizes[s], r.fs[s])]
           hs == r.sizes                                      \* the map of this run (handle), not saved by fix
           rd(p) == LET x == Slot(hs, p) IN IF x.s = 0 \/ x.o >= valid1[x.s] THEN -3 ELSE ReadIn(fl1, hs, p)
           errs == {p \in 0..(total - 1) : rd(p) # p}
           fl2 == WriteAll(fl1, hs, errs)
           valid2 == [s \in 1..k |-> LET ends == {Slot(hs, p).o + B : p \in {q \in errs : Slot(hs, q).s = s}}
                                     IN IF ends = {} THEN valid1[s]
                                        ELSE Max2(valid1[s], CHOOSE m \in ends : \A x \in ends : x <= m)]
       IN IF r.ok THEN /\ files' = [s \in 1..k |-> SetLen(fl2[s], valid2[s] \div B)]      \* parity_truncate
                       /\ lost' = {}
          ELSE files' = fl1 /\ lost' = lost
    /\ UNCHANGED <<k, sizes, lims, total>>

JunkTail(s) ==
    /\ Tick /\ s \in 1..k
    \* a limit is the capacity of the disk for that file: unless capacities change, no file is beyond it
    /\ (VaryLimits \/ lims[s] = 0 \/ B * (Len(files[s]) + 1) <= lims[s])
    /\ files' = [files EXCEPT ![s] = Append(@, -2)]
    /\ UNCHANGED <<k, sizes, lims, total, lost>>

Drop == /\ Tick /\ k > 1 /\ sizes[k] = 0                   \* "Parity misses used file" otherwise: refused
        /\ k' = k - 1
        /\ sizes' = SubSeq(sizes, 1, k - 1)
        /\ files' = SubSeq(files, 1, k - 1)
        /\ UNCHANGED <<lims, total, lost>>

Add == /\ Tick /\ k < KMax
       /\ k' = k + 1
       /\ sizes' = Append(sizes, 0)
       /\ files' = Append(files, <<>>)
       /\ UNCHANGED <<lims, total, lost>>

NewLimits == /\ VaryLimits /\ Tick
             /\ lims' \in [1..KMax -> LimitSet] \ {lims}
             /\ UNCHANGED <<k, sizes, files, total, lost>>

Next == (\E t \in 0..MaxBlocks : Sync(t)) \/ (\E s \in 1..KMax : Lose(s) \/ JunkTail(s)) \/ Fix \/ Drop \/ Add \/ NewLimits
Spec == Init /\ [][Next]_vars

(* ---- what the property states ---- *)
SumOK == Sum(sizes) = total * B /\ Len(sizes) = k /\ Len(files) = k
MapOK == NoStraddle(sizes) /\ MapBijection(sizes)
LookupOK == \A p \in 0..total : LookupT(sizes, p * B) = Lookup(sizes, p * B)
(* what was written at a position is read back from it *)
ReadBack == \A p \in 0..(total - 1) : p \in lost \/ Read(p) = p
(* the files hold at least the recorded sizes unless one was lost *)
FilesFit == lost = {} => \A s \in 1..k : B * Len(files[s]) >= sizes[s]
(* steps: the recorded map changes only as the statement allows *)
StepOK == [][ /\ (k' = k /\ sizes' # sizes) => ResizeOK(sizes, sizes', total' * B) /\ PlacesKept(sizes, sizes')
              /\ (k' # k) => (total' = total /\ \A p \in 0..(total - 1) : Lookup(sizes', p * B) = Lookup(sizes, p * B)) ]_vars
=============================================================================
