SPECIFICATION Spec
CONSTANT MaxLen = 2
INVARIANT RawIsDecodable
CHECK_DEADLOCK FALSE
