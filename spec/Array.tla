------------------------------- MODULE Array -------------------------------
(***************************************************************************)
(* SnapRAID array as a state machine, commands atomic (DESIGN.md 4.1).     *)
(*                                                                         *)
(* This module contains only constant-level operators: every command is a  *)
(* function from the durable state (and its arguments) to the new durable  *)
(* state and an "out" record.  ArrayMC.tla wraps them into actions for     *)
(* exhaustive exploration, ArrayTrace.tla into trace-validation actions.   *)
(*                                                                         *)
(* Transcribed from cmdline/scan.c, sync.c, check.c, scrub.c, state.c as   *)
(* they are (including behaviour the properties call defective).           *)
(*                                                                         *)
(* Abstractions:                                                           *)
(*  - a block value is a string ("v3", "s7", "J...", "Z" = zero block);    *)
(*    VLen gives the byte length of values shorter than a block;           *)
(*  - the hash of a value over its own length is the value itself, over    *)
(*    any other length a token equal to no recorded hash;                  *)
(*  - parity[l][p] is the vector w it encodes ("V") or junk ("J"); MDS:    *)
(*    recovery of the blocks E with levels L is right iff all levels hold  *)
(*    the same w and the other buffers agree with w (discharged by C03).   *)
(***************************************************************************)
EXTENDS Naturals, Sequences, FiniteSets, TLC, Functions

CONSTANTS D,          \* set of data disks (strings)
          NP,         \* number of parity levels
          BS,         \* block size in bytes
          VLen,       \* [value -> byte length] for the values shorter than a block
          NameOrder   \* sequence of all file names in strcmp order (forced alpha scan order)

Levels == 1..NP

(* TLC keeps [x \in S |-> e] unevaluated and re-evaluates e at every application; @@ (Java) forces a table *)
Eager(f) == f @@ <<>>

Max(S) == CHOOSE x \in S : \A y \in S : y <= x
Min(S) == CHOOSE x \in S : \A y \in S : x <= y
SeqToSet(s) == {s[i] : i \in 1..Len(s)}
(* no RECURSIVE operators in this module: TLC evaluates their arguments by name, without caching *)
SumSeq(s) == FoldFunction(LAMBDA a, b : a + b, 0, s)
(* left fold over a short sequence (a recursive function, not a recursive operator); used once, in InoClaims, where the order
   of the scan matters *)
FoldL(op(_, _), base, seq) == LET F[i \in 0..Len(seq)] == IF i = 0 THEN base ELSE op(F[i - 1], seq[i]) IN F[Len(seq)]

NBlk(sz) == (sz + BS - 1) \div BS
BlkLen(sz, i) == IF i < NBlk(sz) THEN BS ELSE sz - (NBlk(sz) - 1) * BS
(* garbage produced by the model itself (a value written or read over a length that is not its own) is named
   by its length only: "G<len>" *)
GName(k) == "G" \o ToString(k)
GNames == {GName(k) : k \in 1..BS}
LenOf(v) == IF v \in DOMAIN VLen THEN VLen[v] ELSE IF v \in GNames THEN CHOOSE k \in 1..BS : GName(k) = v ELSE BS
IsJunkVal(v) == Len(v) > 0 /\ SubSeq(v, 1, 1) \in {"J", "G"}

(* hash of the first len bytes of a buffer holding value v (zero padded) *)
HashOf(v, len) == IF LenOf(v) = len THEN v ELSE "HM:" \o v \o ":" \o ToString(len)
IsMarker(h) == h \in {"ZERO", "INVALID"}
IsUnique(h) == ~IsMarker(h)

(* what a file block holds after the first len bytes of a buffer with value v are written *)
Written(v, len) == IF LenOf(v) = len THEN v ELSE GName(len)

SortNames(S) == SelectSeq(NameOrder, LAMBDA n : n \in S)

(***************************************************************************)
(* Content state C:                                                        *)
(*   cf   : [D -> [names -> [sz, mt, bl: Seq([pos, st, h])]]]              *)
(*   del  : [D -> Seq(hash | "NONE")]   (index pos+1, length bmax)         *)
(*   info : Seq([p: BOOLEAN, t, bad, js])  (index pos+1, length bmax)      *)
(* fs     : [D -> [names -> [b: Seq(value), mt, sz]]]                      *)
(* par    : Seq over levels of Seq over positions of [k: "V"|"J", w: [D -> value]]  *)
(***************************************************************************)
T8(now) == now - (now % 8)        \* info times have 8 s granularity (elem.h INFO_MASK)
NoInfo == [p |-> FALSE, t |-> 0, bad |-> FALSE, js |-> FALSE]
ZeroVec == [d \in D |-> "Z"]
JunkCell == [k |-> "J", w |-> ZeroVec]
BMax(C) == Len(C.info)

DelAt(C, d, p) == IF p + 1 <= Len(C.del[d]) THEN C.del[d][p + 1] ELSE "NONE"
InfoAt(C, p) == IF p + 1 <= Len(C.info) THEN C.info[p + 1] ELSE NoInfo

(* the file block of disk d at position p, or a record with k = "E" (empty) / "D" (deleted) *)
FileBlocks(C, d) == {<<n, i>> \in UNION {{<<n, i>> : i \in 1..Len(C.cf[d][n].bl)} : n \in DOMAIN C.cf[d]} : TRUE}
BlockAtSlow(C, d, p) ==
    LET S == {x \in FileBlocks(C, d) : C.cf[d][x[1]].bl[x[2]].pos = p}
    IN IF S # {} THEN LET x == CHOOSE x \in S : TRUE
                          b == C.cf[d][x[1]].bl[x[2]]
                      IN [k |-> "F", n |-> x[1], i |-> x[2], st |-> b.st, h |-> b.h]
       ELSE IF DelAt(C, d, p) # "NONE" THEN [k |-> "D", n |-> "", i |-> 0, st |-> "DEL", h |-> DelAt(C, d, p)]
       ELSE [k |-> "E", n |-> "", i |-> 0, st |-> "EMPTY", h |-> "NONE"]

(* index of all positions, computed once per content state; C.ix when present *)
PosIndex(C) == LET n == Max({0} \cup {Len(C.del[d]) : d \in D} \cup UNION {{C.cf[d][x[1]].bl[x[2]].pos + 1 : x \in FileBlocks(C, d)} : d \in D})
              IN Eager([d \in D |-> Eager([q \in 1..n |-> BlockAtSlow(C, d, q - 1)])])
WithIndex(C) == [cf |-> C.cf, del |-> C.del, info |-> C.info, ix |-> PosIndex(C)]
EmptyBlock == [k |-> "E", n |-> "", i |-> 0, st |-> "EMPTY", h |-> "NONE"]
BlockAt(C, d, p) == IF "ix" \in DOMAIN C THEN (IF p + 1 <= Len(C.ix[d]) THEN C.ix[d][p + 1] ELSE EmptyBlock)
                    ELSE BlockAtSlow(C, d, p)

HasFile(b) == b.k = "F"
InvalidParity(b) == b.st \in {"CHG", "REP", "DEL"}
UpdatedHash(b) == b.st \in {"BLK", "REP"}

UsedPositions(C, d) == {C.cf[d][x[1]].bl[x[2]].pos : x \in FileBlocks(C, d)}
AllocatedMax(C) == LET U == UNION {UsedPositions(C, d) : d \in D} IN IF U = {} THEN 0 ELSE Max(U) + 1
UsedMax(C) == LET U == UNION {{C.cf[d][x[1]].bl[x[2]].pos : x \in {y \in FileBlocks(C, d) : C.cf[d][y[1]].bl[y[2]].st = "BLK"}} : d \in D}
              IN IF U = {} THEN 0 ELSE Max(U) + 1
ParityInvalid(C) == \E p \in 0..(AllocatedMax(C) - 1) :
                       /\ \E d \in D : HasFile(BlockAt(C, d, p))
                       /\ \E d \in D : InvalidParity(BlockAt(C, d, p))

(* what state_write does to the in-memory state before encoding it: positions without any file block lose
   their info and their deleted blocks; the arrays are cut at the last file block *)
Normalize(C) ==
    LET bm == AllocatedMax(C)
        req(p) == \E d \in D : p \in UsedPositions(C, d)
    IN [cf |-> C.cf,
        del |-> [d \in D |-> [q \in 1..bm |-> IF req(q - 1) THEN DelAt(C, d, q - 1) ELSE "NONE"]],
        info |-> [q \in 1..bm |-> IF req(q - 1) THEN InfoAt(C, q - 1) ELSE NoInfo]]

(***************************************************************************)
(* Load for sync (state.c:2001-2023): hashes of past data are not trusted. *)
(***************************************************************************)
ClearPast(C) ==
    [C EXCEPT !.cf = [d \in D |-> [n \in DOMAIN C.cf[d] |->
                         [C.cf[d][n] EXCEPT !.bl = [i \in 1..Len(C.cf[d][n].bl) |->
                              IF C.cf[d][n].bl[i].st = "CHG" THEN [C.cf[d][n].bl[i] EXCEPT !.h = "INVALID"]
                              ELSE C.cf[d][n].bl[i]]]]],
              !.del = [d \in D |-> [q \in 1..Len(C.del[d]) |-> IF C.del[d][q] = "NONE" THEN "NONE" ELSE "INVALID"]]]

ForceNoCopy(C) ==
    [C EXCEPT !.cf = [d \in D |-> [n \in DOMAIN C.cf[d] |->
                         [C.cf[d][n] EXCEPT !.bl = [i \in 1..Len(C.cf[d][n].bl) |->
                              IF C.cf[d][n].bl[i].st = "REP" THEN [C.cf[d][n].bl[i] EXCEPT !.h = "INVALID", !.st = "CHG"]
                              ELSE C.cf[d][n].bl[i]]]]]]

(* -R, --force-realloc (state.c:2028): every synced block is loaded as a block whose parity has to be recomputed (BLK -> REP,
   the hash stays trusted), so that every stable file is taken out and inserted again by the scan (compaction) *)
ForceRealloc(C) ==
    [C EXCEPT !.cf = [d \in D |-> [n \in DOMAIN C.cf[d] |->
                         [C.cf[d][n] EXCEPT !.bl = [i \in 1..Len(C.cf[d][n].bl) |->
                              IF C.cf[d][n].bl[i].st = "BLK" THEN [C.cf[d][n].bl[i] EXCEPT !.st = "REP"]
                              ELSE C.cf[d][n].bl[i]]]]]]

(***************************************************************************)
(* Scan (scan.c) without usable inodes: files are matched by path + size   *)
(* + time stamp.  opts: [nocopy, force_empty, force_zero, keep_past]       *)
(* keep_past = clear_past_hash (TRUE in sync: hashes of blocks deleted in  *)
(* this very scan are trusted).                                            *)
(***************************************************************************)
SameStamp(f, g) == f.sz = g.sz /\ f.mt = g.mt
Kept(C, fs, d) == {n \in DOMAIN C.cf[d] : n \in DOMAIN fs[d] /\ SameStamp(fs[d][n], C.cf[d][n])}
(* hash migration (rehash.c): the rehash command marks every used position; until sync or scrub has processed a marked
   stripe, every hash recorded at that position (blocks of files, past hashes, deleted blocks) is one of the previous hash
   function, afterwards of the new one.  In this specification a hash is the value it stands for, so the function in use is
   visible only through the mark: info records carry a field rh (TRUE) while they are marked, and the projection of the
   real content file turns a hash made with the wrong function for its position into a junk value. *)
IsRh(i) == "rh" \in DOMAIN i /\ i.rh
Rh(C, p) == p + 1 <= Len(C.info) /\ IsRh(C.info[p + 1])
HasRh(C, f) == \E i \in 1..Len(f.bl) : Rh(C, f.bl[i].pos)
RehashMarked(C) == [C EXCEPT !.info = [q \in 1..Len(C.info) |-> IF C.info[q].p THEN [rh |-> TRUE] @@ C.info[q] ELSE C.info[q]]]
RehashInProgress(C) == \E q \in 1..Len(C.info) : IsRh(C.info[q])
FullInvalid(f) == Len(f.bl) > 0 /\ \A i \in 1..Len(f.bl) : f.bl[i].st \in {"CHG", "REP"}
FullHashed(f) == Len(f.bl) > 0 /\ \A i \in 1..Len(f.bl) : f.bl[i].st \in {"BLK", "REP"}
\* "stable": no block at a position still waiting for the hash migration (scan.c:426, 472)
Realloc(C, fs, d) == {n \in Kept(C, fs, d) : FullInvalid(C.cf[d][n]) /\ ~HasRh(C, C.cf[d][n])}
Stay(C, fs, d) == Kept(C, fs, d) \ Realloc(C, fs, d)
Gone(C, fs, d) == DOMAIN C.cf[d] \ Kept(C, fs, d)              \* removed or changed
Fresh(C, fs, d) == DOMAIN fs[d] \ Kept(C, fs, d)               \* added or changed
Changed(C, fs, d) == Gone(C, fs, d) \cap DOMAIN fs[d]

NamePos(n) == CHOOSE i \in 1..Len(NameOrder) : NameOrder[i] = n
DiskIdx(d) == CHOOSE i \in 0..63 : ToString(i) = d
BaseName(n) == LET idx == {i \in 1..Len(n) : SubSeq(n, i, i) = "/"}
               IN IF idx = {} THEN n ELSE SubSeq(n, Max(idx) + 1, Len(n))

(* candidate sources for copy detection of the fresh file fs[d][n] *)
CopySources(C, fs, d, n) ==
    {<<e, m>> \in UNION {{<<e, m>> : m \in DOMAIN C.cf[e]} : e \in D} :
        /\ SameStamp(C.cf[e][m], fs[d][n])
        \* with a usable sub-second part the name alone is compared, else the whole path (scan.c:1051-1054)
        /\ IF fs[d][n].mt[2] # 0 /\ fs[d][n].mt[2] >= 0 THEN BaseName(m) = BaseName(n) ELSE m = n
        \* on the same disk: the replaced record of the same path is removed first; another record that is replaced is
        \* removed when its path is scanned (alphabetical order); records that are merely deleted stay until the end
        /\ ~(e = d /\ (m = n \/ (m \in Changed(C, fs, d) /\ NamePos(m) < NamePos(n))))
        \* disks are scanned one after the other in configuration order (--test-skip-multi-scan in the conformance
        \* runs): a record replaced on an earlier disk is already gone, one on a later disk is still there
        /\ ~(DiskIdx(e) < DiskIdx(d) /\ m \in Changed(C, fs, e))
        /\ FullHashed(C.cf[e][m]) /\ ~HasRh(C, C.cf[e][m])}

(* removal rule for the hash of a block that becomes DELETED (scan.c:346-388) *)
DelHash(b, keep_past) == CASE b.st = "BLK" -> b.h
                           [] b.st = "CHG" -> IF keep_past THEN b.h ELSE "INVALID"
                           [] OTHER -> "INVALID"

(* positions freed on disk d and the hash they keep *)
FreedHash(C, fs, d, p, keep_past) ==
    LET S == {x \in FileBlocks(C, d) : x[1] \in (Gone(C, fs, d) \cup Realloc(C, fs, d)) /\ C.cf[d][x[1]].bl[x[2]].pos = p}
    IN IF S = {} THEN DelAt(C, d, p)
       ELSE LET x == CHOOSE x \in S : TRUE IN DelHash(C.cf[d][x[1]].bl[x[2]], keep_past)

StayPositions(C, fs, d) == {C.cf[d][x[1]].bl[x[2]].pos : x \in {y \in FileBlocks(C, d) : y[1] \in Stay(C, fs, d)}}

(* the k-th (1-based) position, counting from 0, not in occ *)
NthFree(occ, k, from) == CHOOSE p \in 0..(k + Cardinality(occ)) :
                            p \notin occ /\ Cardinality({q \in 0..p : q \notin occ}) = k

(* blocks of an inserted file before allocation: state and hash, position assigned later.
   src = <<disk, name>> of the copy source or <<>> *)
FreshBlocks(C, fs, d, n, src) ==
    LET nb == NBlk(fs[d][n].sz)
    IN IF src # <<>> THEN [i \in 1..nb |-> [st |-> "REP", h |-> C.cf[src[1]][src[2]].bl[i].h]]
       ELSE [i \in 1..nb |-> [st |-> "CHG", h |-> "NONE"]]
ReallocBlocks(C, d, n) == [i \in 1..Len(C.cf[d][n].bl) |-> [st |-> C.cf[d][n].bl[i].st, h |-> C.cf[d][n].bl[i].h]]

(* scan of one disk.  srcs: [fresh name -> source or <<>>] *)
ScanDisk(C, fs, d, srcs, keep_past) ==
    LET ins == SortNames(Fresh(C, fs, d) \cup Realloc(C, fs, d))
        re == Realloc(C, fs, d)
        preT == Eager([k \in 1..Len(ins) |-> IF ins[k] \in re THEN Eager(ReallocBlocks(C, d, ins[k]))
                                                ELSE Eager(FreshBlocks(C, fs, d, ins[k], srcs[ins[k]]))])
        pre(n) == preT[CHOOSE k \in 1..Len(ins) : ins[k] = n]
        cnt(n) == Len(pre(n))
        cnts == Eager([k \in 1..Len(ins) |-> Len(preT[k])])
        offs == Eager([k \in 1..Len(ins) |-> Cardinality(UNION {{<<j, i>> : i \in 1..cnts[j]} : j \in 1..(k - 1)})])
        offset(k) == offs[k]                                         \* blocks allocated before file k
        occ == StayPositions(C, fs, d)
        posT == Eager([k \in 1..Len(ins) |-> Eager([i \in 1..cnts[k] |-> NthFree(occ, offs[k] + i, 0)])])
        posof(k, i) == posT[k][i]
        blk(k, i) == LET b == preT[k][i]
                         p == posof(k, i)
                         oh == FreedHash(C, fs, d, p, keep_past)
                     \* a copied hash is kept only at a position that is not waiting for the hash migration (scan.c:259)
                     IN IF b.st = "REP" /\ ~Rh(C, p) THEN [pos |-> p, st |-> "REP", h |-> b.h]
                        ELSE [pos |-> p, st |-> "CHG", h |-> IF oh = "NONE" THEN "ZERO" ELSE oh]
        rec(k) == LET n == ins[k]
                      base == IF n \in Realloc(C, fs, d) THEN [sz |-> C.cf[d][n].sz, mt |-> C.cf[d][n].mt]
                              ELSE [sz |-> fs[d][n].sz, mt |-> fs[d][n].mt]
                  IN [sz |-> base.sz, mt |-> base.mt, bl |-> Eager([i \in 1..cnts[k] |-> blk(k, i)])]
        newnames == Stay(C, fs, d) \cup SeqToSet(ins)
        taken == {posof(x[1], x[2]) : x \in UNION {{<<k, i>> : i \in 1..cnts[k]} : k \in 1..Len(ins)}}
        top == Max({0} \cup {p + 1 : p \in occ \cup taken} \cup {Len(C.del[d])})
    IN [cf |-> Eager([n \in newnames |-> IF n \in Stay(C, fs, d) THEN C.cf[d][n]
                                   ELSE rec(CHOOSE k \in 1..Len(ins) : ins[k] = n)]),
        del |-> Eager([q \in 1..top |-> IF (q - 1) \in taken \/ (q - 1) \in occ THEN "NONE"
                                  ELSE FreedHash(C, fs, d, q - 1, keep_past)])]

SrcOf(srcs, d, n) == IF d \in DOMAIN srcs /\ n \in DOMAIN srcs[d] THEN srcs[d][n] ELSE <<>>
ScanCounts(C, fs, d) == [equal |-> Cardinality(Kept(C, fs, d)),
                         remove |-> Cardinality(Gone(C, fs, d) \ DOMAIN fs[d]),
                         change |-> Cardinality(Changed(C, fs, d)),
                         add |-> Cardinality(Fresh(C, fs, d) \ DOMAIN C.cf[d])]

(***************************************************************************)
(* Scan with usable inodes (scan.c:732-850): on a disk whose UUID is the   *)
(* recorded one ("trusted": tr) every file is first looked up by inode     *)
(* number among the records of the disk; a record with the same inode,     *)
(* size and time stamp IS that file, whatever its name (a move: no data is *)
(* read again); only then the path is tried.  The names are met in scan    *)
(* order and a record met by path (kept or replaced) is no longer there    *)
(* for a later file that carries its inode number.  File records carry the *)
(* field ino in the traces of inode-mode arrays only.                      *)
(* The claims are turned into a renaming of the records (a record whose    *)
(* name is taken over by a moved record and that is not itself claimed is  *)
(* never looked at again: it is removed at the end of the scan), after     *)
(* which the scan by path and stamp of this module applies unchanged.      *)
(***************************************************************************)
InoClaims(C, fs, d) ==
    LET step(acc, n) ==
            LET cand == {r \in DOMAIN C.cf[d] : r \notin acc.done /\ r \notin acc.noino /\ C.cf[d][r].ino = fs[d][n].ino}
                r == CHOOSE x \in cand : TRUE
                byino == cand # {} /\ SameStamp(C.cf[d][r], fs[d][n])
                pathdone == IF n \in DOMAIN C.cf[d] /\ n \notin acc.done THEN {n} ELSE {}
            IN IF byino THEN [done |-> acc.done \cup {r}, noino |-> acc.noino, ren |-> acc.ren @@ (n :> r)]
               \* the inode number of a record is forgotten when another file carries it (scan.c:850-870)
               ELSE [done |-> acc.done \cup pathdone, noino |-> acc.noino \cup cand, ren |-> acc.ren]
    IN FoldL(step, [done |-> {}, noino |-> {}, ren |-> <<>>], SortNames(DOMAIN fs[d])).ren
GoneName(n) == "~" \o n        \* never the name of a file
InoRenameDisk(C, fs, d) ==
    LET ren == InoClaims(C, fs, d)                      \* new name -> recorded name
        moved == {n \in DOMAIN ren : ren[n] # n}
        movedold == {ren[n] : n \in moved}
        shadow == {n \in moved : n \in DOMAIN C.cf[d] /\ n \notin movedold}
        keepold == DOMAIN C.cf[d] \ (movedold \cup shadow)
        newdom == keepold \cup moved \cup {GoneName(n) : n \in shadow}
    IN Eager([m \in newdom |-> IF m \in moved THEN C.cf[d][ren[m]]
                               ELSE IF m \in keepold THEN C.cf[d][m]
                               ELSE C.cf[d][CHOOSE n \in shadow : GoneName(n) = m]])
InoRename(C, fs, tr) == IF tr = {} THEN C ELSE [C EXCEPT !.cf = [d \in D |-> IF d \in tr THEN InoRenameDisk(C, fs, d) ELSE C.cf[d]]]
(* what diff and the scan report besides additions, removals and changes: moved files and files that came back with a new inode *)
InoDifferences(C, fs, tr) ==
    \E d \in tr :
        \/ \E n \in DOMAIN InoClaims(C, fs, d) : InoClaims(C, fs, d)[n] # n
        \/ \E m \in Kept(InoRename(C, fs, tr), fs, d) : InoRename(C, fs, tr).cf[d][m].ino # fs[d][m].ino
(* after a scan every record carries the inode number its file has now *)
WithCurrentInodes(C, fs) ==
    [C EXCEPT !.cf = [d \in D |-> [n \in DOMAIN C.cf[d] |->
                         IF n \in DOMAIN fs[d] /\ "ino" \in DOMAIN fs[d][n] THEN [ino |-> fs[d][n].ino] @@ [x \in DOMAIN C.cf[d][n] \ {"ino"} |-> C.cf[d][n][x]]
                         ELSE C.cf[d][n]]]]

(* the interlocks of scan.c:1828-1873 and scan.c:1011 (copy-detected changes count as copies, not changes) *)
(* lc[d] = [eq, rm, chg]: unchanged / removed / changed links of disk d; they count like files (scan.c:149-222) *)
NoLinks == [d \in D |-> [eq |-> 0, rm |-> 0, chg |-> 0]]
EmptyInterlockL(C, fs, srcs, lc) ==
    \E d \in D : LET k == ScanCounts(C, fs, d)
                     chg == Cardinality({n \in Changed(C, fs, d) : SrcOf(srcs, d, n) = <<>>})
                 IN k.equal + lc[d].eq = 0 /\ (k.remove + lc[d].rm # 0 \/ chg + lc[d].chg # 0)
EmptyInterlock(C, fs, srcs) == EmptyInterlockL(C, fs, srcs, NoLinks)
ZeroInterlock(C, fs) ==
    \E d \in D : \E n \in Changed(C, fs, d) : C.cf[d][n].sz # 0 /\ fs[d][n].sz = 0

NoDifference(C, fs) == \A d \in D : Gone(C, fs, d) = {} /\ Fresh(C, fs, d) = {}

(* With parallel scan threads (the default) a candidate source whose own record is replaced or re-allocated in the same
   scan on another disk may or may not be found, and may even be copied while its hashes are being invalidated
   (scan.c:993, 672-686, 1058-1060): the outcome depends on thread timing (finding F11, C13).  The conformance runs
   therefore scan the disks sequentially; sources that are merely deleted stay available until all disks are
   scanned (scan.c:1668-1700). *)
(* a file that was itself taken as a copy earlier in the same scan (on a disk scanned before) carries hashes and can
   be the source of a further copy *)
FreshSources(C, fs, srcs, d, n) ==
    {x \in UNION {{<<e, m>> : m \in Fresh(C, fs, e)} : e \in {e \in D : DiskIdx(e) < DiskIdx(d)}} :
        /\ SrcOf(srcs, x[1], x[2]) # <<>>
        /\ SameStamp(fs[x[1]][x[2]], fs[d][n])
        /\ Len(fs[x[1]][x[2]].b) > 0
        /\ IF fs[d][n].mt[2] # 0 /\ fs[d][n].mt[2] >= 0 THEN BaseName(x[2]) = BaseName(n) ELSE x[2] = n}
(* the recorded file whose hashes a copy finally carries.  A reference <<e, m>> from a file of disk d means the file
   inserted earlier in this scan when e was scanned before d and m is fresh there, the recorded file otherwise
   (a record that is replaced on a disk scanned later is still the old one).  cx = [d: referring disk, x: reference];
   chains are as long as the number of disks at most. *)
SrcStep(C, fs, srcs, cx) ==
    IF cx.x # <<>> /\ DiskIdx(cx.x[1]) < DiskIdx(cx.d) /\ cx.x[2] \in Fresh(C, fs, cx.x[1])
    THEN [d |-> cx.x[1], x |-> SrcOf(srcs, cx.x[1], cx.x[2])] ELSE cx
RootSrcOf(C, fs, srcs, d, x) ==
    SrcStep(C, fs, srcs, SrcStep(C, fs, srcs, SrcStep(C, fs, srcs, SrcStep(C, fs, srcs, SrcStep(C, fs, srcs, [d |-> d, x |-> x]))))).x
SrcsFull(C, fs, srcs) == Eager([d \in D |-> Eager([n \in Fresh(C, fs, d) |-> RootSrcOf(C, fs, srcs, d, SrcOf(srcs, d, n))])])
SrcsOK(C, fs, srcs, nocopy) ==
    \A d \in D : \A n \in Fresh(C, fs, d) :
        LET s == SrcOf(srcs, d, n)
            all == CopySources(C, fs, d, n) \cup FreshSources(C, fs, srcs, d, n)
        IN IF nocopy THEN s = <<>>
           ELSE IF s = <<>> THEN all = {}
           ELSE <<s[1], s[2]>> \in all

Scan(C, fs, srcs0, keep_past) ==
    LET srcs == SrcsFull(C, fs, srcs0)
        per == Eager([d \in D |-> ScanDisk(C, fs, d, srcs[d], keep_past)])
        bm == Max({Len(per[d].del) : d \in D} \cup {Len(C.info)})
    IN [cf |-> [d \in D |-> per[d].cf],
        del |-> [d \in D |-> [q \in 1..bm |-> IF q <= Len(per[d].del) THEN per[d].del[q] ELSE "NONE"]],
        info |-> [q \in 1..bm |-> IF q <= Len(C.info) THEN C.info[q] ELSE NoInfo]]

(* all admissible choices of copy sources (the code takes the first match in disk order; which
   one that is when several decoys match is left open) *)
SrcChoices(C, fs, nocopy) ==
    LET opt(d, n) == IF nocopy \/ CopySources(C, fs, d, n) = {} THEN {<<>>} ELSE CopySources(C, fs, d, n)
    IN {s \in [D -> UNION {[Fresh(C, fs, d) -> UNION {opt(d, n) : n \in Fresh(C, fs, d)} \cup {<<>>}] : d \in D}] :
           \A d \in D : DOMAIN s[d] = Fresh(C, fs, d) /\ \A n \in Fresh(C, fs, d) : s[d][n] \in opt(d, n)}

(***************************************************************************)
(* Sync of one stripe (sync.c:771-1286).  M = in-memory content after      *)
(* scan, fs = the data disks as they are when the stripe is read.          *)
(* Returns [M, par, err, silent, wrote]                                    *)
(***************************************************************************)
ParAt(par, l, p) == IF p + 1 <= Len(par[l]) THEN par[l][p + 1] ELSE JunkCell

(* MDS abstraction: recovering the disks E with the levels L from the buffers buf *)
RecoverOK(par, p, E, L, buf) ==
    /\ L # {}
    /\ \A l \in L : ParAt(par, l, p).k = "V"
    /\ \A l1, l2 \in L : ParAt(par, l1, p).w = ParAt(par, l2, p).w
    /\ LET w == ParAt(par, CHOOSE l \in L : TRUE, p).w IN \A d \in D \ E : buf[d] = w[d]
(* The first level is a plain XOR, so for a single lost block rebuilt from it alone the result is exact whatever the
   other buffers hold: values that occur an even number of times among (encoded vector, other buffers) cancel.  This
   matters when a file moved to another disk lands on the stripe position its old copy (now a deleted block, read
   as zero) still occupies in the parity. *)
XorRecover(w, d, buf) ==
    LET vals == {w[e] : e \in D} \cup {buf[e] : e \in D \ {d}}
        occ(v) == Cardinality({e \in D : w[e] = v}) + Cardinality({e \in D \ {d} : buf[e] = v})
        odd == {v \in vals \ {"Z"} : occ(v) % 2 = 1}
    IN IF odd = {} THEN "Z" ELSE IF Cardinality(odd) = 1 THEN CHOOSE v \in odd : TRUE ELSE "G:rec"
Recovered(par, p, E, L, buf) ==
    LET w == ParAt(par, CHOOSE l \in L : TRUE, p).w
        ok == RecoverOK(par, p, E, L, buf)
        xr == L = {1} /\ Cardinality(E) = 1 /\ ParAt(par, 1, p).k = "V"
    IN Eager([d \in D |-> IF d \in E THEN (IF ok THEN w[d] ELSE IF xr THEN XorRecover(w, d, buf) ELSE "G:rec") ELSE buf[d]])

ReadOutcome(M, fs, d, b) ==
    \* "ok" with the value read, or "err" when the file vanished or changed since the scan
    LET f == M.cf[d][b.n]
    IN IF b.n \in DOMAIN fs[d] /\ SameStamp(fs[d][b.n], f) /\ b.i <= Len(fs[d][b.n].b)
       THEN [ok |-> TRUE, v |-> fs[d][b.n].b[b.i]] ELSE [ok |-> FALSE, v |-> "Z"]

SyncStripe(M, fs, par, p, now, force_full, rlen) ==
    LET red == "red" \in DOMAIN M /\ M.red
        blk == Eager([d \in D |-> BlockAt(M, d, p)])
        info == InfoAt(M, p)
        rd == Eager([d \in D |-> IF HasFile(blk[d]) THEN ReadOutcome(M, fs, d, blk[d]) ELSE [ok |-> TRUE, v |-> "Z"]])
        files == {d \in D : HasFile(blk[d])}
        lenT == Eager([d \in D |-> IF d \in files THEN BlkLen(M.cf[d][blk[d].n].sz, blk[d].i) ELSE BS])
        len(d) == lenT[d]
        hashT == Eager([d \in D |-> HashOf(rd[d].v, lenT[d])])
        hash(d) == hashT[d]
        readerr == {d \in files : ~rd[d].ok}
        good == files \ readerr
        repchanged == {d \in good : blk[d].st = "REP" /\ hash(d) # blk[d].h}
        silent == {d \in good : blk[d].st = "BLK" /\ hash(d) # blk[d].h}
        err == readerr # {} \/ repchanged # {}
        needs == \/ force_full \/ (info.p /\ info.bad)
                 \/ \E d \in D : blk[d].st \in {"REP", "DEL"}
                 \* with a reduced hash size (hashsize < 16) no hash is taken as "unique" (elem.h:621), so a CHG block always
                 \* makes the stripe need its parity
                 \/ \E d \in good : blk[d].st = "CHG" /\ (red \/ ~IsUnique(blk[d].h) \/ hash(d) # blk[d].h)
        \* the hash of every CHG block that was read is stored at once (sync.c:1015-1017), also when the stripe is skipped
        M1 == [M EXCEPT !.cf = [d \in D |-> IF d \in good /\ blk[d].st = "CHG"
                                            THEN [M.cf[d] EXCEPT ![blk[d].n].bl[blk[d].i].h = hash(d)] ELSE M.cf[d]]]
        \* on-the-fly repair of silent errors (sync.c:1027-1161)
        inval == {d \in D : InvalidParity(blk[d])}
        \* sync.c:1051 tests the ZERO marker on the CHG block *after* sync.c:1017 has overwritten it with the
        \* hash of the data just read, so no block that was read is ever treated as "was zero"
        zeroed == {d \in inval \ good : blk[d].st = "CHG" /\ blk[d].h = "ZERO"}
        E == (inval \ zeroed) \cup silent
        buf0 == Eager([d \in D |-> IF d \in zeroed THEN "Z" ELSE rd[d].v])
        tryfix == silent # {} /\ ~err /\ Cardinality(E) <= NP
        \* parity blocks gained by the resize of this run cannot be read back (parity.c:911): the sync stops
        abort == tryfix /\ \E l \in Levels : p + 1 > rlen[l]
        canfix == tryfix /\ ~abort
        L == 1..Cardinality(E)
        rec == Recovered(par, p, E, L, buf0)
        fixed == canfix /\ \A d \in silent : HashOf(rec[d], len(d)) = blk[d].h
        data == Eager([d \in D |-> IF d \in silent /\ fixed THEN rec[d] ELSE IF d \in files THEN rd[d].v ELSE "Z"])
        proceed == ~err /\ (silent = {} \/ fixed)
        M2 == IF proceed
              THEN [M1 EXCEPT !.cf = [d \in D |-> IF HasFile(blk[d])
                                                  THEN [M1.cf[d] EXCEPT ![blk[d].n].bl[blk[d].i].st = "BLK"] ELSE M1.cf[d]],
                              !.del = [d \in D |-> IF blk[d].k = "D" THEN [M1.del[d] EXCEPT ![p + 1] = "NONE"] ELSE M1.del[d]],
                              !.info = IF needs /\ silent = {}
                                       THEN [M1.info EXCEPT ![p + 1] = [p |-> TRUE, t |-> T8(now), bad |-> FALSE, js |-> TRUE]]
                                       ELSE M1.info]
              ELSE M1
        M3 == IF silent # {} THEN [M2 EXCEPT !.info[p + 1] = [InfoAt(M2, p) EXCEPT !.bad = TRUE, !.p = TRUE]] ELSE M2
        wrote == proceed /\ needs
    IN [M |-> M3,
        par |-> IF wrote THEN [l \in Levels |-> [par[l] EXCEPT ![p + 1] = [k |-> "V", w |-> data]]] ELSE par,
        err |-> Cardinality(readerr) + Cardinality(repchanged), silent |-> Cardinality(silent), wrote |-> wrote,
        abort |-> abort, M1 |-> M1]

StripeEnabled(M, p, force_full) ==
    /\ \E d \in D : HasFile(BlockAt(M, d, p))
    /\ force_full \/ \E d \in D : InvalidParity(BlockAt(M, d, p))

(* parity files are resized to the allocated size before the stripes are processed (sync.c:1528-1548);
   blocks gained by growing are unspecified (junk until written) *)
Resize(par, n) == [l \in Levels |-> [q \in 1..n |-> IF q <= Len(par[l]) THEN par[l][q] ELSE JunkCell]]

(* Stripes are independent of each other: SyncStripe(M, .., p, ..) reads and changes only the blocks, the
   deleted entries, the info and the parity cells of position p.  The result is therefore assembled from
   the per-stripe results, all computed from the state after the scan (no recursion: TLC evaluates
   arguments of recursive operators by name). *)
SyncRange(M, fs, par, lo, bm, now, ff, rlen) ==
    LET en0 == {p \in lo..(bm - 1) : StripeEnabled(M, p, ff)}
        R == Eager([p \in en0 |-> SyncStripe(M, fs, par, p, now, ff, rlen)])
        ab == {p \in en0 : R[p].abort}
        pa == IF ab = {} THEN bm ELSE Min(ab)                 \* the sync stops at this stripe
        en == {p \in en0 : p < pa}
        MOf(p) == IF p = pa THEN R[p].M1 ELSE R[p].M
        touched == {p \in en0 : p <= pa}
        cfOf(d, n) == [M.cf[d][n] EXCEPT !.bl = [i \in 1..Len(M.cf[d][n].bl) |->
                          LET p == M.cf[d][n].bl[i].pos IN IF p \in touched THEN MOf(p).cf[d][n].bl[i] ELSE M.cf[d][n].bl[i]]]
    IN [M |-> [cf |-> [d \in D |-> [n \in DOMAIN M.cf[d] |-> cfOf(d, n)]],
               del |-> [d \in D |-> [q \in 1..Len(M.del[d]) |-> IF (q - 1) \in en THEN R[q - 1].M.del[d][q] ELSE M.del[d][q]]],
               info |-> [q \in 1..Len(M.info) |-> IF (q - 1) \in en THEN R[q - 1].M.info[q] ELSE M.info[q]]],
        par |-> [l \in Levels |-> [q \in 1..Len(par[l]) |-> IF (q - 1) \in en THEN R[q - 1].par[l][q] ELSE par[l][q]]],
        err |-> SumSeq([p \in 1..bm |-> IF (p - 1) \in en THEN R[p - 1].err ELSE 0]),
        silent |-> SumSeq([p \in 1..bm |-> IF (p - 1) \in en THEN R[p - 1].silent ELSE 0]),
        aborted |-> ab # {}, ndone |-> Cardinality(en)]
SyncAll(M, fs, par, bm, now, ff, rlen) == SyncRange(M, fs, par, 0, bm, now, ff, rlen)

(* Pre-hash (-h, sync.c:31-418): before anything is written every CHG and REP block of the range is read; a REP block
   (hash taken over from a presumed copy or an earlier pre-hash) whose data does not match stops the whole sync
   before the parity is touched; CHG blocks become REP with the hash just computed. *)
Prehash(M, fs, lo, hi) ==
    LET todo(d, n, i) == M.cf[d][n].bl[i].st \in {"CHG", "REP"} /\ M.cf[d][n].bl[i].pos >= lo /\ M.cf[d][n].bl[i].pos < hi
        val(d, n, i) == IF n \in DOMAIN fs[d] /\ i <= Len(fs[d][n].b) THEN fs[d][n].b[i] ELSE "Z"
        hsh(d, n, i) == HashOf(val(d, n, i), BlkLen(M.cf[d][n].sz, i))
        allb == UNION {{<<d, x[1], x[2]>> : x \in FileBlocks(M, d)} : d \in D}
        mism == {x \in allb : todo(x[1], x[2], x[3]) /\ M.cf[x[1]][x[2]].bl[x[3]].st = "REP" /\ hsh(x[1], x[2], x[3]) # M.cf[x[1]][x[2]].bl[x[3]].h}
        conv == {x \in allb : todo(x[1], x[2], x[3]) /\ M.cf[x[1]][x[2]].bl[x[3]].st = "CHG"}
    IN [M |-> [cf |-> [d \in D |-> [n \in DOMAIN M.cf[d] |->
                   [M.cf[d][n] EXCEPT !.bl = [i \in 1..Len(M.cf[d][n].bl) |->
                       IF <<d, n, i>> \in conv THEN [M.cf[d][n].bl[i] EXCEPT !.st = "REP", !.h = hsh(d, n, i)] ELSE M.cf[d][n].bl[i]]]]],
               del |-> M.del, info |-> M.info],
        skip |-> mism # {}, nmism |-> Cardinality(mism), nconv |-> Cardinality(conv)]

(* Sync: C = content on disk, fs0 = data at scan time, fs1 = data when the stripes are read.
   opts = [force_full, force_empty, force_zero, nocopy]; srcs = copy-source choice *)
SyncResult(C, fs0, fs1, par, now, opts, srcs) ==
    LET realloc == "force_realloc" \in DOMAIN opts /\ opts.force_realloc
        tr == IF "trusted" \in DOMAIN opts THEN opts.trusted ELSE {}
        L00 == IF opts.nocopy THEN ForceNoCopy(ClearPast(C)) ELSE IF realloc THEN ForceRealloc(ClearPast(C)) ELSE ClearPast(C)
        L0 == InoRename(L00, fs0, tr)
        refused == \/ (~opts.force_empty /\ EmptyInterlockL(L0, fs0, srcs, IF "links" \in DOMAIN opts THEN opts.links ELSE NoLinks))
                   \/ (~opts.force_zero /\ ZeroInterlock(L0, fs0))
        M0 == WithCurrentInodes(Scan(L0, fs0, srcs, TRUE), fs0)
        bm == AllocatedMax(M0)
        lo0 == IF "bstart" \in DOMAIN opts THEN opts.bstart ELSE 0
        hi0 == IF "bcount" \in DOMAIN opts /\ opts.bcount # 0 /\ lo0 + opts.bcount < bm THEN lo0 + opts.bcount ELSE bm
        pre == IF "prehash" \in DOMAIN opts /\ opts.prehash THEN Prehash(M0, fs0, lo0, hi0) ELSE [M |-> M0, skip |-> FALSE, nmism |-> 0, nconv |-> 0]
        M == WithIndex(pre.M) @@ [red |-> ("reduced" \in DOMAIN opts /\ opts.reduced)]
        \* "a parity file is smaller than the recorded state requires": the code compares the size it believes the file has,
        \* which with a format-3 content file (split parity or reduced hash size) is the RECORDED size, not the size of the
        \* file on disk (parity.c:195, 228): then a lost or truncated parity file is never noticed (finding F12)
        smallreal == ~opts.force_full /\ ~realloc /\ \E l \in Levels : Len(par[l]) < UsedMax(M)
        small == smallreal /\ ~("v3" \in DOMAIN opts /\ opts.v3)
        par1 == Resize(par, bm)
        \* a SIGINT/SIGTERM stops the run gracefully after the stripe being processed (opts.stop = position + 1, 0 = none)
        \* -S/-B: only the stripes bstart .. bstart+bcount-1 are processed (bcount = 0: to the end); the parity files
        \* are still resized to the full allocated size (sync.c:1462)
        lo == IF "bstart" \in DOMAIN opts THEN opts.bstart ELSE 0
        hi == IF "bcount" \in DOMAIN opts /\ opts.bcount # 0 /\ lo + opts.bcount < bm THEN lo + opts.bcount ELSE bm
        bmp == IF "stop" \in DOMAIN opts /\ opts.stop > 0 /\ opts.stop < hi THEN opts.stop ELSE hi
        r == SyncRange(M, fs1, par1, lo, bmp, now, opts.force_full, [l \in Levels |-> Len(par[l])])
        \* the state is saved before the stripes are processed when the scan or the resize changed something,
        \* and again at the end unless --test-kill-after-sync
        scanchg == \/ \E d \in D : Gone(L0, fs0, d) # {} \/ Fresh(L0, fs0, d) # {} \/ Realloc(L0, fs0, d) # {}
                   \/ InoDifferences(L00, fs0, tr)          \* moved files and new inode numbers are saved too
        \* parity_chsize reports "modified" when the size differs from the recorded one; format 2 content files do not
        \* record parity sizes, so with them every sync that gets this far rewrites the content (opts.v3 = sizes recorded)
        resized == ~("v3" \in DOMAIN opts /\ opts.v3) \/ \E l \in Levels : Len(par[l]) # bm
        presave == IF scanchg \/ resized THEN Normalize(M) ELSE C
        en == {p \in lo..(bmp - 1) : StripeEnabled(M, p, opts.force_full)}
        must == IF refused THEN "interlock" ELSE IF smallreal THEN "parity-too-small" ELSE "no"     \* what C14 demands
    IN IF ~SrcsOK(L0, fs0, srcs, opts.nocopy) THEN [C |-> C, par |-> par, must |-> must, out |-> [exit |-> "bad-copy-source", err |-> 0, silent |-> 0]]
       ELSE IF refused \/ small \/ lo > bm THEN [C |-> C, par |-> par, must |-> must, out |-> [exit |-> "refused", err |-> 0, silent |-> 0]]
       ELSE IF pre.skip THEN [C |-> IF ~opts.kill_after /\ (scanchg \/ pre.nconv > 0) THEN Normalize(pre.M) ELSE C, par |-> par, must |-> must,
                              out |-> [exit |-> "prehash-stop", err |-> 0, silent |-> pre.nmism]]
       \* the state is written again at the end only when at least one stripe was gone through (need_write, sync.c:1289):
       \* a run that stops at its very first stripe leaves what was saved before the stripes (also the hash that
       \* sync.c:1017 had already stored in memory for that stripe is not saved then)
       ELSE [C |-> IF opts.kill_after \/ en = {} \/ (r.aborted /\ r.ndone = 0) THEN presave ELSE Normalize(r.M),
             par |-> r.par, must |-> must,
             out |-> [exit |-> IF r.aborted THEN "abort" ELSE IF r.err + r.silent = 0 THEN "ok" ELSE "error",
                      err |-> r.err, silent |-> r.silent]]

DiffResult(C, fs, srcs) ==
    [exit |-> IF NoDifference(C, fs) /\ ~ParityInvalid(C) THEN "equal" ELSE "diff"]
DiffResultI(C, fs, tr) ==
    [exit |-> IF NoDifference(InoRename(C, fs, tr), fs) /\ ~ParityInvalid(C) /\ ~InoDifferences(C, fs, tr) THEN "equal" ELSE "diff"]

(***************************************************************************)
(* Check / Fix of one stripe (check.c:946-1448, repair at 287-586).        *)
(***************************************************************************)
Combos(n, r) == {S \in SUBSET (1..n) : Cardinality(S) = r}

(* repair_step: failed set F (disks), of which `verif` carry a trusted hash; present = readable parity levels.
   Returns [ok, buf] : first combination that validates *)
RepairStep(par, p, F, verif, buf, present, blk, lens) ==
    LET n == NP
        hasHash == verif # {}
        fc == Cardinality(F)
        hashOK(b) == \A d \in verif : HashOf(b[d], lens[d]) = blk[d].h
        \* strategy with a spare parity: recover with r-1 levels, validate with the remaining highest one
        spare == {S \in Combos(n, fc + 1) : S \subseteq present}
        spareOK(S) == LET chk == Max(S)
                          use == S \ {chk}
                          b == Recovered(par, p, F, use, buf)
                      IN (fc = 0 \/ RecoverOK(par, p, F, use, buf)) /\ ParAt(par, chk, p).k = "V" /\ ParAt(par, chk, p).w = b
        byhash == {S \in Combos(n, fc) : S \subseteq present}
        hashGood(S) == hashOK(Recovered(par, p, F, S, buf))
    IN IF fc = 0 THEN [ok |-> TRUE, buf |-> buf, how |-> "nothing"]
       ELSE IF ~hasHash /\ fc < n /\ \E S \in spare : spareOK(S)
            THEN LET S == CHOOSE S \in spare : spareOK(S) IN [ok |-> TRUE, buf |-> Recovered(par, p, F, S \ {Max(S)}, buf), how |-> "spare"]
       ELSE IF hasHash /\ fc <= n /\ \E S \in byhash : hashGood(S)
            THEN LET S == CHOOSE S \in byhash : hashGood(S) IN [ok |-> TRUE, buf |-> Recovered(par, p, F, S, buf), how |-> "hash"]
       ELSE [ok |-> FALSE, buf |-> buf,
             how |-> IF ~hasHash /\ fc >= n THEN "nostrategy" ELSE IF hasHash /\ fc > n THEN "toomany" ELSE "mismatch"]

(* outcome of reading the file block b of disk d during check/fix:
   missing file / short file -> bad; in fix the file is (re)created with its recorded size first, so a
   missing block reads as zeros *)
CheckRead(C, fs, d, b) ==
    LET f == C.cf[d][b.n]
    IN IF b.n \notin DOMAIN fs[d] THEN [ok |-> FALSE, v |-> "Z"]
       ELSE IF b.i > Len(fs[d][b.n].b) THEN [ok |-> FALSE, v |-> "Z"]
       ELSE IF b.i = Len(fs[d][b.n].b) /\ BlkLen(fs[d][b.n].sz, b.i) < BlkLen(f.sz, b.i) THEN [ok |-> FALSE, v |-> "Z"]
       ELSE [ok |-> TRUE, v |-> fs[d][b.n].b[b.i]]

(* Returns [ok, bad (disks with a bad block), ood (bad blocks whose recovered content is not trusted),
            buf (block contents to write back), perr (parity levels found wrong), parfix (recomputed vector)] *)
NoExt == [stamp |-> {}, blocks |-> {}, reduced |-> FALSE]
(* ext: what -i DIR adds to the search by size and time stamp (ext.stamp: file records [b, mt, sz]) and what
   --test-import-content DIR offers by content (ext.blocks: block values, looked up by hash) *)
(* ext.reduced: the array uses a hash size below 16 bytes; then the special values ZERO and INVALID and "a hash that
   stands for one content only" are not recognised at all (elem.h:579-628: hash_is_zero, hash_is_invalid and
   hash_is_unique all answer no), and every recorded value is compared like a hash *)
CheckStripeX(C, fs, par, p, present0, ext) ==
    LET red == "reduced" \in DOMAIN ext /\ ext.reduced
        present == {l \in present0 : p + 1 <= Len(par[l])}      \* a parity file that is too short gives a read error
        blk == Eager([d \in D |-> BlockAt(C, d, p)])
        \* check -a does not even open the files that the filters exclude (check.c:1040); ext.askip = [D -> excluded names]
        files == {d \in D : HasFile(blk[d]) /\ ~("askip" \in DOMAIN ext /\ blk[d].n \in ext.askip[d])}
        rd == Eager([d \in D |-> IF d \in files THEN CheckRead(C, fs, d, blk[d]) ELSE [ok |-> TRUE, v |-> "Z"]])
        lens == Eager([d \in D |-> IF d \in files THEN BlkLen(C.cf[d][blk[d].n].sz, blk[d].i) ELSE BS])
        hashbad == {d \in files : rd[d].ok /\ blk[d].st \in {"BLK", "REP"} /\ HashOf(rd[d].v, lens[d]) # blk[d].h}
        bad == {d \in files : ~rd[d].ok} \cup hashbad
        failed == bad \cup {d \in D : blk[d].st \in {"CHG", "REP", "DEL"}}
        buf0 == Eager([d \in D |-> IF d \in files /\ rd[d].ok THEN rd[d].v ELSE "Z"])
        valid_parity == \A d \in D : ~InvalidParity(blk[d])
        used_parity == files # {}
        \* blocks with a recorded hash are first looked for in any file of the array that has the size and the time
        \* stamp of the recorded file, at the same offset, and are taken only if they match the hash
        \* (state_search_array / state_search_fetch, search.c; not in audit-only mode)
        allfs == UNION {{<<e, m>> : m \in DOMAIN fs[e]} : e \in D}
        \* ... unless check / fix is run with --force-nocopy (ext.nocopy): then only what -i offers
        cand == (IF "nocopy" \in DOMAIN ext /\ ext.nocopy THEN {} ELSE {fs[x[1]][x[2]] : x \in allfs}) \cup ext.stamp
        fetched == IF present0 = {} THEN {} ELSE
                   {d \in bad : blk[d].st \in {"BLK", "REP"} /\
                       (\/ \E g \in cand : LET rec == C.cf[d][blk[d].n]
                                            IN g.sz = rec.sz /\ g.mt = rec.mt /\ blk[d].i <= Len(g.b)
                                               /\ HashOf(g.b[blk[d].i], lens[d]) = blk[d].h
                        \/ \E v \in ext.blocks : HashOf(v, LenOf(v)) = blk[d].h)}
        buf1 == Eager([d \in D |-> IF d \in fetched THEN blk[d].h ELSE buf0[d]])
        \* strategy 1: the parity is up to date
        F1 == bad \ fetched
        V1 == {d \in F1 : blk[d].st \in {"BLK", "REP"}}
        s1 == RepairStep(par, p, F1, V1, buf1, present, blk, lens)
        ood1 == {d \in bad : blk[d].st = "CHG" /\
                   IF red THEN HashOf(s1.buf[d], lens[d]) = blk[d].h
                   ELSE \/ blk[d].h = "INVALID"
                        \/ (blk[d].h = "ZERO" /\ s1.buf[d] = "Z")
                        \/ (IsUnique(blk[d].h) /\ HashOf(s1.buf[d], lens[d]) = blk[d].h)}
        \* strategy 2: the parity still holds the state before the interrupted sync
        unsynced == {d \in D : blk[d].st \in {"CHG", "REP", "DEL"}}
        zeroed == {d \in unsynced : ~red /\ blk[d].st = "CHG" /\ blk[d].h = "ZERO"}
        \* the old content of CHG / deleted blocks with a trusted past hash is taken from imported content when offered
        oldimp == {d \in unsynced \ zeroed : ~red /\ blk[d].st \in {"CHG", "DEL"} /\ IsUnique(blk[d].h)
                                             /\ \E v \in ext.blocks : HashOf(v, LenOf(v)) = blk[d].h}
        F2 == (unsynced \ (zeroed \cup oldimp)) \cup {d \in bad : blk[d].st = "BLK"}
        V2 == {d \in bad : blk[d].st = "BLK"}
        buf2 == Eager([d \in D |-> IF d \in zeroed THEN "Z" ELSE IF d \in oldimp THEN blk[d].h ELSE buf0[d]])
        try2 == V2 # {} /\ unsynced # {}
        s2 == RepairStep(par, p, F2, V2, buf2, present, blk, lens)
        ood2 == {d \in bad : blk[d].st \in {"CHG", "REP"}}
        ok == bad = {} \/ s1.ok \/ (try2 /\ s2.ok)
        res == IF bad = {} THEN [buf |-> buf0, ood |-> {}]
               ELSE IF s1.ok THEN [buf |-> s1.buf, ood |-> ood1]
               ELSE [buf |-> s2.buf, ood |-> ood2]
        pv == Eager([d \in D |-> res.buf[d]])
        perr == IF ok /\ used_parity /\ valid_parity
                THEN {l \in present : ~(ParAt(par, l, p).k = "V" /\ ParAt(par, l, p).w = pv)} ELSE {}
        \* which branches of the repair logic this stripe went through (coverage goals for generated histories)
        path == IF bad = {} THEN {"clean"}
                ELSE (IF fetched # {} THEN {"fetched"} ELSE {}) \cup
                     (IF s1.ok THEN {"s1-" \o s1.how} \cup
                                    (IF \E d \in ood1 : blk[d].h = "INVALID" THEN {"s1-chg-lost-hash"} ELSE {}) \cup
                                    (IF \E d \in ood1 : blk[d].h = "ZERO" THEN {"s1-chg-maybe-old-zero"} ELSE {}) \cup
                                    (IF \E d \in ood1 : IsUnique(blk[d].h) THEN {"s1-chg-maybe-old-data"} ELSE {}) \cup
                                    (IF \E d \in bad \ ood1 : blk[d].st = "CHG" THEN {"s1-chg-accepted-new"} ELSE {})
                      ELSE {"s1-fail-" \o s1.how} \cup
                           (IF ~try2 THEN {"s2-skipped"}
                            ELSE IF s2.ok THEN {"s2-" \o s2.how} \cup (IF zeroed \cap bad # {} THEN {"s2-zeroed-bad-chg"} ELSE {})
                                                                  \cup (IF ood2 # {} THEN {"s2-old-state-not-written"} ELSE {})
                            ELSE {"s2-fail-" \o s2.how}))
    IN [ok |-> ok, bad |-> bad, ood |-> IF ok THEN res.ood ELSE {}, buf |-> res.buf, perr |-> perr,
        lost |-> IF ok /\ used_parity /\ valid_parity THEN Levels \ present ELSE {}, rderr |-> present0 \ present,
        pv |-> pv, blk |-> blk, lens |-> lens, path |-> path]

CheckStripe(C, fs, par, p, present0) == CheckStripeX(C, fs, par, p, present0, NoExt)

(***************************************************************************)
(* Check / Fix over the whole array.  present = parity levels whose file   *)
(* can be read.  sel = [D -> set of selected (non excluded) file names].   *)
(* Returns fs', par', and out = [exit, derr (data errors found: <<p,d,n>>),*)
(* perr (<<p,l>>), recovered (<<d,n>>), unrec (<<d,n>>), fixedpar]         *)
(***************************************************************************)
(* stripes outside the -S/-B range are not processed at all *)
NoStripe == [ok |-> TRUE, bad |-> {}, ood |-> {}, buf |-> ZeroVec, perr |-> {}, lost |-> {}, rderr |-> {}, pv |-> ZeroVec,
             blk |-> <<>>, lens |-> <<>>, path |-> {}]
RangeOf(rg, bm) == LET lo == IF "bstart" \in DOMAIN rg THEN rg.bstart ELSE 0
                       hi == IF "bcount" \in DOMAIN rg /\ rg.bcount # 0 /\ lo + rg.bcount < bm THEN lo + rg.bcount ELSE bm
                   IN lo..(hi - 1)
CheckRangeX(C0, fs, par, present, rng, ext) ==
    LET C == WithIndex(C0)
    IN Eager([p \in 0..(AllocatedMax(C) - 1) |-> IF p \in rng THEN CheckStripeX(C, fs, par, p, present, ext) ELSE NoStripe])

(* fix works through the stripes in order and the search for a block in other files reads those files at that
   moment: blocks of candidate files that were repaired at a lower position are already good.  Second pass with
   the repairs of the first one (chains longer than that are not modelled). *)
FsAfter(C, fs, R, rng, p, act) ==
    [d \in D |-> [n \in DOMAIN fs[d] |->
        IF n \notin DOMAIN C.cf[d] \/ n \notin act[d] THEN fs[d][n]
        ELSE [fs[d][n] EXCEPT !.b = [i \in 1..Len(fs[d][n].b) |->
                 IF i <= Len(C.cf[d][n].bl)
                 THEN LET q == C.cf[d][n].bl[i].pos
                      IN IF q < p /\ q \in rng /\ R[q].ok /\ d \in R[q].bad /\ d \notin R[q].ood
                         THEN Written(R[q].buf[d], BlkLen(C.cf[d][n].sz, i)) ELSE fs[d][n].b[i]
                 ELSE fs[d][n].b[i]]]]]
FixRangeStripesA(C0, fs, par, present, rng, ext, act) ==
    LET C == WithIndex(C0)
        R1 == CheckRangeX(C0, fs, par, present, rng, ext)
        need == {p \in rng : p < AllocatedMax(C) /\ ~R1[p].ok}
    IN Eager([p \in 0..(AllocatedMax(C) - 1) |->
              IF p \in need
              THEN CheckStripeX(C, fs, par, p, present,
                                [ext EXCEPT !.stamp = IF "nocopy" \in DOMAIN ext /\ ext.nocopy THEN @ ELSE
                                                      @ \cup {FsAfter(C0, fs, R1, rng, p, act)[x[1]][x[2]] :
                                                                 x \in UNION {{<<e, m>> : m \in DOMAIN fs[e]} : e \in D}}])
              ELSE R1[p]])
FixRangeStripes(C0, fs, par, present, rng, ext) ==
    FixRangeStripesA(C0, fs, par, present, rng, ext, [d \in D |-> DOMAIN C0.cf[d]])
CheckRange(C0, fs, par, present, rng) == CheckRangeX(C0, fs, par, present, rng, NoExt)
CheckAll(C0, fs, par, present) == CheckRange(C0, fs, par, present, 0..(AllocatedMax(C0) - 1))

(* a file found larger than recorded is reported once, at the first of its blocks that is processed *)
SizeErrors(C, fs) == {<<Min({C.cf[x[1]][x[2]].bl[i].pos : i \in 1..Len(C.cf[x[1]][x[2]].bl)}), x[1]>> :
                        x \in {y \in UNION {{<<d, n>> : n \in DOMAIN C.cf[d]} : d \in D} :
                                  /\ Len(C.cf[y[1]][y[2]].bl) > 0 /\ y[2] \in DOMAIN fs[y[1]]
                                  /\ fs[y[1]][y[2]].sz > C.cf[y[1]][y[2]].sz}}

FileOutcome(C, fs, R, d, n, rng) ==
    LET f == C.cf[d][n]
        nb == Len(f.bl)
        st(i) == R[f.bl[i].pos]
        inr == {i \in 1..nb : f.bl[i].pos \in rng}
        \* the final status, the rename of a damaged file and the time stamp are handled at the last block of the
        \* file (check.c:631): a file whose last block is outside the range is never finished
        finished == nb > 0 /\ nb \in inr
        badi == {i \in inr : d \in st(i).bad}
        damaged == \E i \in badi : ~st(i).ok \/ d \in st(i).ood
        fixed == \E i \in badi : st(i).ok /\ d \notin st(i).ood
        \* a short last block of the existing file reads as "old bytes + zeros" once a later block is written
        extended == n \in DOMAIN fs[d] /\ \E i \in badi : st(i).ok /\ i > Len(fs[d][n].b)
        old(i) == IF n \in DOMAIN fs[d] /\ i <= Len(fs[d][n].b)
                  THEN (IF i = Len(fs[d][n].b) /\ extended THEN Written(fs[d][n].b[i], BS) ELSE fs[d][n].b[i])
                  ELSE "Z"
        larger == n \in DOMAIN fs[d] /\ fs[d][n].sz > f.sz
        \* a file found larger than recorded is cut to the recorded size (check.c:1141)
        newb == Eager([i \in 1..nb |-> IF i \in badi /\ st(i).ok THEN Written(st(i).buf[d], BlkLen(f.sz, i))
                                       ELSE IF larger THEN Written(old(i), BlkLen(f.sz, i)) ELSE old(i)])
    IN [bad |-> badi # {}, damaged |-> damaged, fixed |-> fixed /\ ~damaged, b |-> newb, larger |-> larger,
        finished |-> finished, touched |-> inr # {}, created |-> inr # {} /\ n \notin DOMAIN fs[d],
        wr |-> {i \in badi : st(i).ok}]

(* sel[d] = names selected by the filters; files outside are never written *)
Unrec(n) == n \o ".unrecoverable"
IsUnrec(n) == Len(n) > 14 /\ SubSeq(n, Len(n) - 13, Len(n)) = ".unrecoverable"
(* the disks as fix sees them: a missing recorded file whose .unrecoverable copy exists is renamed back
   when it is opened (handle.c:66-75) *)
FixView(C, fs, sel) ==
    Eager([d \in D |->
        LET back == {n \in DOMAIN C.cf[d] : n \in sel[d] /\ Len(C.cf[d][n].bl) > 0 /\ n \notin DOMAIN fs[d] /\ Unrec(n) \in DOMAIN fs[d]}
        IN Eager([n \in (DOMAIN fs[d] \ {Unrec(m) : m \in back}) \cup back |-> IF n \in back THEN fs[d][Unrec(n)] ELSE fs[d][n]])])

AnyMt == <<0 - 1, 0>>      \* time stamp left by the kernel after a write that is not followed by the restore of the recorded one

(***************************************************************************)
(* Filters of check and fix (snapraid.c:600-650, state_filter state.c:4108,*)
(* block_is_enabled check.c:797).                                          *)
(*   f = [disks   : data disks named by -d ({} = option not given),        *)
(*        plevels : parity levels named by -d,                             *)
(*        usenames, names : -f given / recorded names its patterns match,  *)
(*        missing : -m,   exists : recorded names that lstat finds,        *)
(*        bad     : "no", "file" (-e) or "block" (-b)]                     *)
(* A recorded file is excluded when any of the given filters rejects it;   *)
(* -e/-b keep the files that have a block in a stripe marked bad and write *)
(* only to files whose size and time stamp are the recorded ones           *)
(* (syncedonly).  Parity levels: with -d only the named ones are written,  *)
(* with -f or -m none, otherwise all.                                      *)
(***************************************************************************)
InfoBad(C, p) == p + 1 <= Len(C.info) /\ C.info[p + 1].p /\ C.info[p + 1].bad
HasBadBlock(C, d, n) == \E i \in 1..Len(C.cf[d][n].bl) : InfoBad(C, C.cf[d][n].bl[i].pos)
NoFilter == [disks |-> {}, plevels |-> {}, usenames |-> FALSE, names |-> [d \in D |-> {}], missing |-> FALSE,
             exists |-> [d \in D |-> {}], bad |-> "no"]
FilterOf(C, f) ==
    [ex |-> Eager([d \in D |-> {n \in DOMAIN C.cf[d] :
                \/ (f.disks # {} \/ f.plevels # {}) /\ d \notin f.disks
                \/ f.usenames /\ n \notin f.names[d]
                \/ f.missing /\ n \in f.exists[d]
                \/ f.bad # "no" /\ ~HasBadBlock(C, d, n)}]),
     pex |-> IF f.disks # {} \/ f.plevels # {} THEN Levels \ f.plevels
             ELSE IF f.missing \/ f.usenames THEN Levels ELSE {},
     bad |-> f.bad, synced |-> f.bad # "no"]
FilterOfSel(C, sel) == [ex |-> [d \in D |-> DOMAIN C.cf[d] \ sel[d]], pex |-> {}, bad |-> "no", synced |-> FALSE]
(* block_is_enabled: the stripes that check and fix process at all *)
FilterEnabled(C, flt, p) ==
    IF flt.bad = "block" THEN InfoBad(C, p)
    ELSE \/ flt.bad = "file" /\ InfoBad(C, p)
         \/ flt.bad = "no" /\ Levels \ flt.pex # {}
         \/ \E d \in D : LET b == BlockAt(C, d, p) IN HasFile(b) /\ b.n \notin flt.ex[d]

FixRangeF(C, fs0, par, present, flt, rg, ext) ==
    LET sel == [d \in D |-> DOMAIN C.cf[d] \ flt.ex[d]]
        fs == FixView(C, fs0, sel)
        bm == AllocatedMax(C)
        CI == WithIndex(C)
        rng == {p \in RangeOf(rg, bm) : FilterEnabled(CI, flt, p)}
        \* FILE_IS_UNSYNCED (check.c:1120): size or time stamp differ from the recorded ones when the file is first
        \* opened; a file that fix has just created always differs.  With -e/-b such files are read but never written
        unsyncedF(d, n) == n \notin DOMAIN fs[d] \/ fs[d][n].sz # C.cf[d][n].sz \/ fs[d][n].mt # C.cf[d][n].mt
        actset == Eager([d \in D |-> {n \in sel[d] : ~(flt.synced /\ unsyncedF(d, n))}])
        R == FixRangeStripesA(C, fs, par, present, rng, ext, actset)
        fo == Eager([d \in D |-> Eager([n \in DOMAIN C.cf[d] |-> FileOutcome(C, fs, R, d, n, rng)])])
        isel(d, n) == n \in actset[d]
        allf == UNION {{<<d, n>> : n \in DOMAIN C.cf[d]} : d \in D}
        unrec == {x \in allf : isel(x[1], x[2]) /\ fo[x[1]][x[2]].damaged /\ fo[x[1]][x[2]].finished}
        empty0 == {x \in allf : RangeOf(rg, bm) # {} /\ x[2] \in sel[x[1]] /\ C.cf[x[1]][x[2]].sz = 0
                                 /\ (x[2] \notin DOMAIN fs[x[1]] \/ fs[x[1]][x[2]].sz # 0)}
        recov == {x \in allf : isel(x[1], x[2]) /\ fo[x[1]][x[2]].fixed /\ fo[x[1]][x[2]].finished} \cup empty0
        \* files that fix had to create and could not finish are removed again (check.c:1860-1885); this includes
        \* the files created and then left alone because of -e/-b
        dropped == {x \in allf : x[2] \in sel[x[1]] /\ fo[x[1]][x[2]].created /\ ~(fo[x[1]][x[2]].finished /\ isel(x[1], x[2]))}
        \* files written in part (some blocks in the range) but not finished keep their name
        partial == {x \in allf : isel(x[1], x[2]) /\ fo[x[1]][x[2]].bad /\ ~fo[x[1]][x[2]].finished /\ ~fo[x[1]][x[2]].created}
        names(d) == (((DOMAIN fs[d] \ {n \in DOMAIN C.cf[d] : <<d, n>> \in unrec}) \cup {n \in DOMAIN C.cf[d] : <<d, n>> \in recov})
                     \ {n \in DOMAIN C.cf[d] : <<d, n>> \in dropped})
                    \cup {Unrec(n) : n \in {m \in DOMAIN C.cf[d] : <<d, m>> \in unrec}}
        fs1 == [d \in D |-> [n \in names(d) |->
                    IF IsUnrec(n) /\ \E m \in DOMAIN C.cf[d] : <<d, m>> \in unrec /\ Unrec(m) = n
                    THEN [b |-> <<>>, mt |-> <<0, 0>>, sz |-> 0]            \* content of an .unrecoverable file is unspecified
                    ELSE IF <<d, n>> \in recov
                    THEN [b |-> fo[d][n].b,
                          \* the recorded time stamp is not put back on a file whose inode number is recorded for ANOTHER file of the
                          \* same size and time stamp (check.c:720-745): the next sync would take it for that file, moved
                          mt |-> IF n \in DOMAIN fs[d] /\ "ino" \in DOMAIN fs[d][n]
                                    /\ \E m \in DOMAIN C.cf[d] : m # n /\ "ino" \in DOMAIN C.cf[d][m] /\ C.cf[d][m].ino = fs[d][n].ino
                                                                 /\ C.cf[d][m].sz = C.cf[d][n].sz /\ C.cf[d][m].mt = C.cf[d][n].mt
                                 THEN AnyMt ELSE C.cf[d][n].mt,
                          sz |-> C.cf[d][n].sz]
                    ELSE IF <<d, n>> \in partial
                         THEN LET top == Max({0} \cup fo[d][n].wr)
                                  nbl == Max({Len(fs[d][n].b), top})
                              IN [b |-> [i \in 1..nbl |-> IF i \in fo[d][n].wr THEN fo[d][n].b[i]
                                                           ELSE IF i <= Len(fs[d][n].b) THEN fs[d][n].b[i] ELSE "Z"],
                                  mt |-> AnyMt,
                                  sz |-> Max({fs[d][n].sz} \cup {(top - 1) * BS + BlkLen(C.cf[d][n].sz, top) : x \in {1} \cap {y \in {1} : top > 0}})]
                    ELSE IF n \in DOMAIN C.cf[d] /\ isel(d, n) /\ fo[d][n].larger /\ fo[d][n].touched
                         THEN [b |-> fo[d][n].b, mt |-> AnyMt, sz |-> C.cf[d][n].sz]
                    ELSE fs[d][n]]]
        pfix == {x \in rng \X (Levels \ flt.pex) : R[x[1]].ok /\ (x[2] \in R[x[1]].perr \/ x[2] \in R[x[1]].lost)}
        par0 == Resize(par, bm)
        \* parity files that may be written are grown to the allocated size first and cut back to the part that is
        \* valid (present before, or written by this run) at the end (check.c:2073, parity_truncate); parity files
        \* excluded by the filters are only read
        plen(l) == IF l \in flt.pex THEN Len(par[l])
                   ELSE IF Len(par[l]) >= bm THEN bm ELSE Max({Len(par[l])} \cup {x[1] + 1 : x \in {y \in pfix : y[2] = l}})
        par1 == [l \in Levels |-> [q \in 1..plen(l) |-> IF <<q - 1, l>> \in pfix THEN [k |-> "V", w |-> R[q - 1].pv]
                                                          ELSE IF l \in flt.pex THEN par[l][q] ELSE par0[l][q]]]
        derr == {x \in rng \X D : x[2] \in R[x[1]].bad}
                \cup {y \in SizeErrors(C, fs) : y[1] \in rng /\ BlockAt(CI, y[2], y[1]).n \in actset[y[2]]}
        nerr == Cardinality(derr) + Cardinality({x \in rng \X Levels : x[2] \in R[x[1]].perr \cup R[x[1]].rderr})
        nunrec == Cardinality({p \in rng : ~R[p].ok \/ R[p].ood # {}})
        beyond == "bstart" \in DOMAIN rg /\ rg.bstart > bm          \* refused: start beyond the end of the array
    IN IF beyond THEN [fs |-> fs0, par |-> par, R |-> R, out |-> [exit |-> "none", derr |-> {}, unrec |-> {}, recovered |-> {}, pfix |-> {}, nunrec |-> 0]]
       ELSE
       [fs |-> fs1, par |-> par1, R |-> R,
        out |-> [exit |-> IF nunrec # 0 THEN "unrecoverable" ELSE IF nerr = 0 /\ recov = {} /\ pfix = {} THEN "ok" ELSE "recovered",
                 derr |-> derr, unrec |-> unrec, recovered |-> recov, pfix |-> pfix, nunrec |-> nunrec]]

FixRangeX(C, fs0, par, present, sel, rg, ext) == FixRangeF(C, fs0, par, present, FilterOfSel(C, sel), rg, ext)

FixRange(C, fs0, par, present, sel, rg) == FixRangeX(C, fs0, par, present, sel, rg, NoExt)
FixResult(C, fs0, par, present, sel) == FixRange(C, fs0, par, present, sel, <<>>)

(* check under the filters of FilterOf (the same selection as fix): only the enabled stripes are processed, check -a skips the
   excluded files, empty files are looked at only when selected *)
CheckResultF(C, fs, par, present, audit, rg, ext0, flt) ==
    LET bm == AllocatedMax(C)
        CI == WithIndex(C)
        rng == {p \in RangeOf(rg, bm) : FilterEnabled(CI, flt, p)}
        ext == IF audit THEN [askip |-> flt.ex] @@ ext0 ELSE ext0
        R == CheckRangeX(C, fs, par, IF audit THEN {} ELSE present, rng, ext)
        sizeerr == {y \in SizeErrors(C, fs) : y[1] \in rng /\ BlockAt(CI, y[2], y[1]).n \notin flt.ex[y[2]]}
        derr == {<<p, d>> \in (0..(bm - 1)) \X D : d \in R[p].bad} \cup sizeerr
        perr == {<<p, l>> \in (0..(bm - 1)) \X Levels : l \in R[p].perr \cup R[p].rderr}
        nunrec == Cardinality({p \in 0..(bm - 1) : R[p].bad # {} /\ (~R[p].ok \/ R[p].ood # {})})
        \* empty files (like links and empty directories) are looked at after the stripes, inside state_check_process, which is
        \* not entered at all when there is no stripe to process (check.c:2051 "skip degenerated cases")
        missing0 == {<<d, n>> \in UNION {{<<d, n>> : n \in DOMAIN C.cf[d]} : d \in D} :
                        RangeOf(rg, bm) # {} /\ n \notin flt.ex[d] /\ C.cf[d][n].sz = 0 /\ (n \notin DOMAIN fs[d] \/ fs[d][n].sz # 0)}
    IN IF "bstart" \in DOMAIN rg /\ rg.bstart > bm THEN [exit |-> "none", derr |-> {}, perr |-> {}, nunrec |-> 0] ELSE
       [exit |-> IF audit THEN (IF derr = {} /\ missing0 = {} THEN "ok" ELSE "error")
                 ELSE IF nunrec # 0 THEN "unrecoverable"
                 ELSE IF derr = {} /\ perr = {} /\ missing0 = {} THEN "ok" ELSE "recoverable",
        derr |-> derr, perr |-> perr, nunrec |-> nunrec]
NoFilterOf(C) == [ex |-> [d \in D |-> {}], pex |-> {}, bad |-> "no", synced |-> FALSE]
CheckResultX(C, fs, par, present, audit, rg, ext) == CheckResultF(C, fs, par, present, audit, rg, ext, NoFilterOf(C))

CheckResultR(C, fs, par, present, audit, rg) == CheckResultX(C, fs, par, present, audit, rg, NoExt)
CheckResult(C, fs, par, present, audit) == CheckResultR(C, fs, par, present, audit, <<>>)

(***************************************************************************)
(* Scrub (scrub.c).  sel = set of positions selected by the plan.          *)
(***************************************************************************)
ScrubStripe(C, fs, par, p, now) ==
    LET blk == Eager([d \in D |-> BlockAt(C, d, p)])
        files == {d \in D : HasFile(blk[d])}
        present(d) == CheckRead(C, fs, d, blk[d]).ok
        tsdiff(d) == blk[d].n \in DOMAIN fs[d] /\ ~SameStamp(fs[d][blk[d].n], C.cf[d][blk[d].n])
        unsynced == {d \in D : InvalidParity(blk[d])} \cup {d \in files : tsdiff(d)}
        readerr == {d \in files : ~present(d)}
        val(d) == IF d \in files /\ present(d) THEN fs[d][blk[d].n].b[blk[d].i] ELSE "Z"
        len(d) == BlkLen(C.cf[d][blk[d].n].sz, blk[d].i)
        mism == {d \in files \ readerr : UpdatedHash(blk[d]) /\ HashOf(val(d), len(d)) # blk[d].h}
        silentd == mism \ unsynced
        errd == readerr \cup (mism \cap unsynced)
        vec == Eager([d \in D |-> val(d)])
        short == {l \in Levels : p + 1 > Len(par[l])}
        pbad == IF errd = {} /\ silentd = {} /\ short = {} THEN {l \in Levels : ~(ParAt(par, l, p).k = "V" /\ ParAt(par, l, p).w = vec) /\ p + 1 <= Len(par[l])} ELSE {}
        silent == silentd # {} \/ (pbad # {} /\ unsynced = {})
        err == errd # {} \/ (pbad # {} /\ unsynced # {}) \/ short # {}
        info == InfoAt(C, p)
    IN [info |-> IF silent THEN [info EXCEPT !.bad = TRUE] ELSE IF err THEN info
                 ELSE [p |-> TRUE, t |-> T8(now), bad |-> FALSE, js |-> FALSE],
        derr |-> {<<p, d>> : d \in mism \cup readerr}, perr |-> {<<p, l>> : l \in pbad \cup short}, silent |-> silent, err |-> err]

PlanSel(C, plan) == {p \in 0..(BMax(C) - 1) : InfoAt(C, p).p /\
                        \* pct100 = the percentage plan with -p 100 -o 0: every stripe that has info (ScrubPlan.tla has the general plan)
                        (InfoAt(C, p).bad \/ plan \in {"full", "pct100"} \/ (plan = "new" /\ InfoAt(C, p).js))}

ScrubResult(C0, fs, par, sel, now, present) ==
    LET C == WithIndex(C0)
        R == Eager([p \in sel |-> ScrubStripe(C, fs, par, p, now)])
        empty == \A q \in 1..Len(C0.info) : ~C0.info[q].p
    IN IF empty \/ present # Levels THEN [C |-> C0, out |-> [exit |-> "none", derr |-> {}, perr |-> {}, marked |-> {}]] ELSE
       \* a stripe waiting for the hash migration that is scrubbed without any error gets the new-function hash of the data
       \* just read in EVERY file block (scrub.c:601-607), also in a CHG block, whose hash otherwise stands for the data
       \* that is still in the parity: this happens only when the parity already matches the new data (a sync that updated
       \* the parity and was killed before it saved the content), so the hash still is the hash of what the parity holds
       LET migrated == {p \in sel : Rh(C0, p) /\ ~R[p].silent /\ ~R[p].err}
           cf1 == IF migrated = {} THEN C0.cf ELSE
                  [d \in D |-> [n \in DOMAIN C0.cf[d] |->
                      [C0.cf[d][n] EXCEPT !.bl = [i \in 1..Len(C0.cf[d][n].bl) |->
                          IF C0.cf[d][n].bl[i].pos \in migrated /\ C0.cf[d][n].bl[i].st = "CHG" /\ n \in DOMAIN fs[d] /\ i <= Len(fs[d][n].b)
                          THEN [C0.cf[d][n].bl[i] EXCEPT !.h = HashOf(fs[d][n].b[i], BlkLen(C0.cf[d][n].sz, i))]
                          ELSE C0.cf[d][n].bl[i]]]]]
       IN
       [C |-> [cf |-> cf1,
               \* the hashes of deleted blocks of a migrated stripe are not converted: they stay hashes of the previous
               \* function and can never match again ("STALE")
               del |-> IF migrated = {} THEN C0.del ELSE
                       [d \in D |-> [q \in 1..Len(C0.del[d]) |-> IF (q - 1) \in migrated /\ C0.del[d][q] \notin {"NONE", "ZERO", "INVALID"}
                                                                 THEN "STALE" ELSE C0.del[d][q]]],
               info |-> [q \in 1..Len(C0.info) |-> IF (q - 1) \in sel THEN R[q - 1].info ELSE C0.info[q]]],
        out |-> [exit |-> IF \E p \in sel : R[p].silent \/ R[p].err THEN "error" ELSE "ok",
                 derr |-> UNION {R[p].derr : p \in sel}, perr |-> UNION {R[p].perr : p \in sel},
                 marked |-> {p \in sel : R[p].silent}]]

(***************************************************************************)
(* Properties evaluated on states (real or model).                         *)
(***************************************************************************)
StripeVec(C, p) == [d \in D |-> LET b == BlockAt(C, d, p) IN IF HasFile(b) THEN b.h ELSE "Z"]
AllSynced(C, p) == /\ \E d \in D : HasFile(BlockAt(C, d, p))
                   /\ \A d \in D : BlockAt(C, d, p).st \in {"BLK", "EMPTY"}

(* C06 *)
ParityValid(C, par) == \A p \in 0..(AllocatedMax(C) - 1) : AllSynced(C, p) =>
                          \A l \in Levels : p + 1 <= Len(par[l]) /\ par[l][p + 1].k = "V" /\ par[l][p + 1].w = StripeVec(C, p)
MapSane(C) == /\ \A d \in D : \A x, y \in FileBlocks(C, d) :
                     x # y => C.cf[d][x[1]].bl[x[2]].pos # C.cf[d][y[1]].bl[y[2]].pos
              /\ \A d \in D : \A n \in DOMAIN C.cf[d] :
                     /\ Len(C.cf[d][n].bl) = NBlk(C.cf[d][n].sz)
                     /\ \A i \in 1..(Len(C.cf[d][n].bl) - 1) : C.cf[d][n].bl[i].pos < C.cf[d][n].bl[i + 1].pos
              /\ \A d \in D : \A p \in 0..(BMax(C) - 1) : DelAt(C, d, p) # "NONE" => p \notin UsedPositions(C, d)

=============================================================================
