SPECIFICATION Spec
CONSTANT MaxLen = 3
INVARIANT RoundTrip
INVARIANT Clean
INVARIANT TwoFields
CHECK_DEADLOCK FALSE
