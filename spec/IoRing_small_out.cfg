\* quick tier: unlock-then-signal discipline (--test-cond-signal-outside), no spurious wake-ups, 3 positions
SPECIFICATION FairSpec
CONSTANTS
  N = 3
  RD = 2
  RP = 0
  W = 1
  BlockStart = 0
  BlockMax = 4
  Enabled = {0, 2, 3}
  SignalOutside = TRUE
  Spurious = FALSE
  ROutcomes <- OutSoftHard
  WOutcomes <- OutWSoft
  MaxFail = 1
  AllowSkip = TRUE
  AllowStop = TRUE
  AllowBail = FALSE
INVARIANTS TypeOK Asserts Ownership OnceInOrder Deterministic ErrorsAccountedR WaitSane
PROPERTY Termination
CHECK_DEADLOCK TRUE
