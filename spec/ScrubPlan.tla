----------------------------- MODULE ScrubPlan -----------------------------
(***************************************************************************)
(* C15: which stripes a scrub checks.                                      *)
(*                                                                         *)
(*  (a) Allowed / Selected : DECLARATIVE, written from the property        *)
(*      statement and the manual (snapraid.txt 5.7, -p, -o), not from the  *)
(*      code.                                                              *)
(*  (b) Limits / Enabled / Transcribed : TRANSCRIPTION of                  *)
(*      cmdline/scrub.c:53-102 (block_is_enabled) and :734-870             *)
(*      (state_scrub: count limit, recent limit, sorted time map, time     *)
(*      limit, last limit).                                                *)
(*  ScrubPlanMC.tla lets TLC check (b) against (a) for all small info      *)
(*  arrays and all arguments; ScrubPlanTrace.tla checks what the real      *)
(*  binary scrubbed against both; ScrubPlanLive.tla has the liveness part. *)
(*                                                                         *)
(* info : sequence over stripe positions (index = position + 1, length =   *)
(*        blockmax = allocated size of the array) of                       *)
(*        [p |-> used?, t |-> last time known good, bad |-> , js |-> ]     *)
(*        (same shape as Array.tla's C.info).                              *)
(* plan : "full" | "new" | "bad" | "pct"; pct in 0..100 or -1 (= the       *)
(*        default "about 8%": one twelfth); older in days or -1 (= the     *)
(*        default 10 days); now = clock of the scrub.                      *)
(* No RECURSIVE operator: TLC evaluates their arguments by name.           *)
(***************************************************************************)
EXTENDS Integers, Sequences, FiniteSets, TLC

CONSTANT Day      \* length of a day in the unit of the info times (86400 for real traces, 1 in the small models)

Eager(f) == f @@ <<>>       \* forces a function table (TLC keeps [x \in S |-> e] lazy otherwise)

Used(info) == {i \in 1..Len(info) : info[i].p}
BadOf(info) == {i \in Used(info) : info[i].bad}

(* scrub.c:725-733 md(a, b, c) = ceil(a * b / c) *)
Md(a, b, c) == (a * b + c - 1) \div c

(* The share of the array a percentage plan may check.  "The array" is all blockmax positions (used or not):   *)
(* the bound is a number of whole stripes, and the code rounds the share UP (md), so for small arrays the      *)
(* bound exceeds the exact share by less than one stripe (6 positions, 10% -> 1 stripe).  The default plan is  *)
(* "about the 8%" = 1/12 (snapraid.txt 5.7).                                                                   *)
CountLimit(n, pct) == IF pct < 0 THEN Md(n, 1, 12) ELSE Md(n, pct, 100)
(* "DAYS is the minimum age in days for a block to be scrubbed, default is 10" *)
RecentLimit(older, now) == now - (IF older < 0 THEN 10 ELSE older) * Day

(***************************************************************************)
(* (a) DECLARATIVE.  A set S of stripes is an allowed selection iff        *)
(*   - only used stripes, and every stripe marked bad (all plans);         *)
(*   - full: every used stripe; new: the never scrubbed ones (and bad);    *)
(*     bad: nothing else;                                                  *)
(*   - percentage, for the stripes selected for their age (S \ bad):       *)
(*       no more than that share of the array,                             *)
(*       none younger than the age limit,                                  *)
(*       oldest first: every selected stripe is at least as old as every   *)
(*       used, not bad, unselected stripe.  Ties are unconstrained (the    *)
(*       statement does not say which of equally old stripes go first).    *)
(***************************************************************************)
Allowed(S, info, plan, pct, older, now) ==
    /\ S \subseteq Used(info)
    /\ BadOf(info) \subseteq S
    /\ CASE plan = "full" -> S = Used(info)
         [] plan = "new"  -> S = BadOf(info) \cup {i \in Used(info) : info[i].js}
         [] plan = "bad"  -> S = BadOf(info)
         [] plan = "pct"  ->
              LET R == S \ BadOf(info)
                  rest == (Used(info) \ BadOf(info)) \ S
              IN /\ Cardinality(R) <= CountLimit(Len(info), pct)
                 /\ \A s \in R : info[s].t <= RecentLimit(older, now)
                 /\ \A s \in R : \A u \in rest : info[s].t <= info[u].t
         [] OTHER -> FALSE

Selected(info, plan, pct, older, now) == {S \in SUBSET Used(info) : Allowed(S, info, plan, pct, older, now)}

(* What "repeated scrubs eventually cover every stripe" additionally needs from one scrub (manual: "about the 8% of *)
(* the array is checked", "the exact percentage"): among the stripes old enough, at least the quota is checked,     *)
(* as far as there are that many.  Not part of Allowed (the statement only bounds from above).                     *)
Eligible(info, older, now) == {i \in Used(info) : info[i].t <= RecentLimit(older, now)}
Progress(S, info, pct, older, now) ==
    LET E == Eligible(info, older, now)
        q == CountLimit(Len(info), pct)
    IN Cardinality(S \cap E) >= (IF q < Cardinality(E) THEN q ELSE Cardinality(E))

(***************************************************************************)
(* (b) TRANSCRIPTION of scrub.c.                                           *)
(***************************************************************************)
TimesOf(info) == {info[i].t : i \in Used(info)}
NLess(info, t) == Cardinality({j \in Used(info) : info[j].t < t})
NLeq(info, t) == Cardinality({j \in Used(info) : info[j].t <= t})
(* scrub.c:806-829: times of the used stripes, qsort ascending; timemap[k-1] in C = TimeMap[k] here (sort by counting) *)
TimeMap(info) == Eager([k \in 1..Cardinality(Used(info)) |->
                           CHOOSE t \in TimesOf(info) : NLess(info, t) < k /\ k <= NLeq(info, t)])

(* scrub.c:783-797 and 842-870.  The two while loops are given by their exit condition + invariant (unique result). *)
LimitsTm(tm, n, pct, older, now) ==                           \* tm = TimeMap(info), n = blockmax = Len(info)
    LET count == Len(tm)
        recent == RecentLimit(older, now)
        c0 == CountLimit(n, pct)                              \* countlimit = md(blockmax, plan, 100) | md(blockmax, 1, 12)
        c1 == IF c0 > count THEN count ELSE c0                \* "no more than the full count"
        \* while (countlimit > 0 && timemap[countlimit - 1] > recentlimit) --countlimit;
        c2 == CHOOSE c \in 0..c1 : (c = 0 \/ tm[c] <= recent) /\ (\A k \in (c + 1)..c1 : tm[k] > recent)
        tl == IF c2 > 0 THEN tm[c2] ELSE 0                    \* ps.timelimit
        \* ps.lastlimit = 1; while (countlimit > ps.lastlimit && timemap[countlimit - ps.lastlimit - 1] == ps.timelimit) ++ps.lastlimit;
        ll == IF c2 > 0
              THEN CHOOSE m \in 1..c2 : (\A k \in 1..(m - 1) : tm[c2 - k] = tl) /\ (m = c2 \/ tm[c2 - m] # tl)
              ELSE 0
    IN [count_limit |-> c2, time_limit |-> tl, last_limit |-> ll]
Limits(info, pct, older, now) == LimitsTm(TimeMap(info), Len(info), pct, older, now)

NoLimits == [count_limit |-> 0, time_limit |-> 0, last_limit |-> 0]

(* scrub.c:53-102 block_is_enabled, called for i = 0, 1, ... in increasing order with the running counter countlast: *)
(* countlast before stripe i = min(lastlimit, number of earlier used, not bad stripes whose time is the time limit)   *)
EnabledAt(info, plan, lim, i) ==
    /\ info[i].p                                             \* "don't scrub unused blocks in all plans"
    /\ \/ info[i].bad                                        \* "bad blocks are always scrubbed in all plans"
       \/ plan = "full"
       \/ plan = "new" /\ info[i].js
       \/ /\ plan = "pct"
          /\ ~(info[i].t > lim.time_limit)                   \* "if it's too new"
          /\ \/ info[i].t # lim.time_limit
             \/ Cardinality({j \in 1..(i - 1) : info[j].p /\ ~info[j].bad /\ info[j].t = lim.time_limit}) < lim.last_limit

EnabledSet(info, plan, lim) == {i \in 1..Len(info) : EnabledAt(info, plan, lim, i)}
Transcribed(info, plan, pct, older, now) ==
    EnabledSet(info, plan, IF plan = "pct" THEN Limits(info, pct, older, now) ELSE NoLimits)

(* variants used only to show that the checks bite (ScrubPlanMC with Mutant # "none") *)
MutantSet(info, plan, lim, mutant) ==
    CASE mutant = "ge"     -> {i \in EnabledSet(info, plan, lim) : info[i].bad \/ plan # "pct" \/ info[i].t # lim.time_limit}
      [] mutant = "noties" -> {i \in 1..Len(info) : info[i].p /\ (info[i].bad \/ (plan = "pct" /\ info[i].t <= lim.time_limit /\ lim.count_limit > 0))}
      [] mutant = "newest" -> {i \in 1..Len(info) : info[i].p /\ (info[i].bad \/ (plan = "pct" /\ lim.count_limit > 0 /\ info[i].t >= lim.time_limit))}
      [] OTHER -> EnabledSet(info, plan, lim)
=============================================================================
