---------------------------- MODULE SplitMapTrace ----------------------------
(***************************************************************************)
(* C17: validation of the resize steps of the real binary.                 *)
(*                                                                         *)
(* harness/py/props/C17.py runs growth / shrink / loss / fix histories on  *)
(* real arrays whose parity levels are split over several files with       *)
(* --test-parity-limit N, and logs for every command that resizes parity   *)
(* (sync, fix) and every level one ndjson line                             *)
(*   [cmd, level, sizes0 (recorded before; for a split without a record    *)
(*    the size of its file, as parity_create does), fs0 (file sizes        *)
(*    before), lims (the per-split limits the harness computes from N as   *)
(*    parity.c:29 does), total (blockmax * block size asked for), ok,      *)
(*    sizes1 (recorded after, read with the independent content decoder),  *)
(*    fs1 (file sizes after), recorded (all sizes0 come from the content    *)
(*    file)].                                                              *)
(* TLC checks each line against SplitMap!Chsize (what parity.c is read to  *)
(* do) and against the statement (ResizeOK, PlacesKept, NoStraddle).       *)
(***************************************************************************)
EXTENDS Integers, Sequences, FiniteSets, TLC, Json, IOUtils

TraceFile == IF "TRACE" \in DOMAIN IOEnv THEN IOEnv.TRACE ELSE "trace.ndjson"
TraceLog == ndJsonDeserialize(TraceFile)

B == TraceLog[1].B
INSTANCE SplitMap

VARIABLES l, diag
vars == <<l, diag>>

Ev == TraceLog[l]

StepSync(e) ==
    LET r == Chsize(e.sizes0, e.fs0, e.lims, e.total)
        okModel == /\ r.ok = e.ok
                   /\ r.sizes = e.sizes1
                   /\ r.fs = e.fs1
        okDecl == e.ok => /\ Sum(e.sizes1) = e.total
                          /\ NoStraddle(e.sizes1)
                          /\ MapBijection(e.sizes1)
                          /\ ResizeOK(e.sizes0, e.sizes1, e.total) /\ PlacesKept(e.sizes0, e.sizes1)
        okFail == ~e.ok => e.sizes1 = e.sizes0
    IN IF okModel /\ okDecl /\ okFail THEN <<>>
       ELSE <<"sync", l, [model |-> okModel, statement |-> okDecl, failure |-> okFail], r, e>>

(* fix: parity_create + parity_chsize to the recorded total; nothing is recorded; afterwards the files are cut to
   what is known valid (never longer than the recorded size, never longer than what chsize made) *)
StepFix(e) ==
    LET r == Chsize(e.sizes0, e.fs0, e.lims, e.total)
        okModel == /\ r.ok = e.ok
                   /\ (e.ok /\ e.recorded) => r.sizes = e.sizes0  \* the map used by this fix is the recorded one
                   /\ \A s \in 1..Len(e.fs1) : e.fs1[s] <= r.fs[s]
        okDecl == /\ e.sizes1 = e.sizes0
                  /\ e.ok => \A s \in 1..Len(e.fs1) : e.fs1[s] <= e.sizes1[s] /\ e.fs1[s] % B = 0
    IN IF okModel /\ okDecl THEN <<>>
       ELSE <<"fix", l, [model |-> okModel, statement |-> okDecl], r, e>>

Init == l = 1 /\ diag = <<>>
Next == /\ l <= Len(TraceLog)
        /\ l' = l + 1
        /\ diag' = IF Ev.cmd = "sync" THEN StepSync(Ev) ELSE IF Ev.cmd = "fix" THEN StepFix(Ev) ELSE <<>>
Spec == Init /\ [][Next]_vars

Conforms == diag = <<>>
Accepted == TLCGet("stats").diameter = Len(TraceLog) + 1
=============================================================================
