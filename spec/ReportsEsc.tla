----------------------------- MODULE ReportsEsc -----------------------------
(***************************************************************************)
(* C20, "names survive every output unambiguously": the two encodings of   *)
(* names used by the reports, as functions on byte strings (sequences of   *)
(* symbolic bytes), their inverses (the decoders of harness/py/reports.py) *)
(* and the unambiguity of the line formats built from them.                *)
(*                                                                         *)
(*   tag stream (-l):  \n -> \ n   \r -> \ r   : -> \ d   \ -> \ \         *)
(*                     fields joined by ':' , one record per line          *)
(*   terminal:         shell style, a backslash in front of the special    *)
(*                     bytes (space ? * \ ...), nothing else touched;      *)
(*                     "name -> target", "name = name"                     *)
(*                                                                         *)
(* TLC checks, for ALL strings up to length MaxLen over the alphabet:      *)
(* round trip, cleanliness (no raw separator inside an encoded name),      *)
(* unique parsing of two-field lines.  It also exports the complete table  *)
(* string -> (tag encoding, shell encoding); the harness creates a file    *)
(* for every string and compares what the real binary prints, byte by      *)
(* byte, with the table (spec -> code).                                    *)
(* RawIsDecodable is the (false) claim that an UNescaped name can be put   *)
(* in a tag line: its counterexample is finding F6 on the model.           *)
(***************************************************************************)
EXTENDS Naturals, Sequences, FiniteSets, TLC, Json, IOUtils

CONSTANTS MaxLen
(* symbolic bytes *)
A == "a"  Dd == "d"  COLON == ":"  BSL == "BS"  NL == "NL"  CR == "CR"  SP == "SP"  QM == "?"  Nn == "n"  Rr == "r"
GT == ">"  EQ == "="  MINUS == "-"
Alphabet == {A, Dd, COLON, BSL, NL, CR, SP, QM}
Strings == UNION {[1..k -> Alphabet] : k \in 0..MaxLen}

Flatten(ss) == LET n == Len(ss)
                   sumto(i) == Cardinality(UNION {{<<j, k>> : k \in 1..Len(ss[j])} : j \in 1..i})
                   ends == [i \in 0..n |-> sumto(i)] @@ <<>>
               IN [p \in 1..ends[n] |-> LET i == CHOOSE i \in 1..n : ends[i - 1] < p /\ p <= ends[i] IN ss[i][p - ends[i - 1]]]

(* ---- encoders ---- *)
TagByte(c) == CASE c = NL -> <<BSL, Nn>> [] c = CR -> <<BSL, Rr>> [] c = COLON -> <<BSL, Dd>> [] c = BSL -> <<BSL, BSL>> [] OTHER -> <<c>>
EscTag(s) == Flatten([i \in 1..Len(s) |-> TagByte(s[i])])
ShellSpecial == {SP, QM, BSL, GT, EQ}          \* of the bytes used here (esc_shell also quotes ~ ` # $ & * ( ) | [ ] { } ; ' " <)
ShellByte(c) == IF c \in ShellSpecial THEN <<BSL, c>> ELSE <<c>>
EscShell(s) == Flatten([i \in 1..Len(s) |-> ShellByte(s[i])])

(* ---- decoders ---- *)
(* number of backslashes immediately before position i *)
BsRun(e, i) == CHOOSE k \in 0..(i - 1) : (\A j \in (i - k)..(i - 1) : e[j] = BSL) /\ (k = i - 1 \/ e[i - k - 1] # BSL)
IsEscStart(e, i) == e[i] = BSL /\ BsRun(e, i) % 2 = 0
Consumed(e, i) == i > 1 /\ IsEscStart(e, i - 1)
Indices(e) == SelectSeq([i \in 1..Len(e) |-> i], LAMBDA i : ~Consumed(e, i))
TagUn(c) == CASE c = Nn -> NL [] c = Rr -> CR [] c = Dd -> COLON [] c = BSL -> BSL [] OTHER -> "ILLEGAL"
UnescTag(e) == LET ix == Indices(e)
               IN [k \in 1..Len(ix) |-> IF IsEscStart(e, ix[k]) THEN (IF ix[k] < Len(e) THEN TagUn(e[ix[k] + 1]) ELSE "ILLEGAL") ELSE e[ix[k]]]
UnescShell(e) == LET ix == Indices(e)
                 IN [k \in 1..Len(ix) |-> IF IsEscStart(e, ix[k]) THEN (IF ix[k] < Len(e) THEN e[ix[k] + 1] ELSE "ILLEGAL") ELSE e[ix[k]]]

(* split at the bytes c that are not part of an escape pair *)
SepPos(e, c) == SelectSeq([i \in 1..Len(e) |-> i], LAMBDA i : e[i] = c /\ ~Consumed(e, i))
Split(e, c) == LET sp == SepPos(e, c)
                   n == Len(sp)
                   lo(k) == IF k = 1 THEN 1 ELSE sp[k - 1] + 1
                   hi(k) == IF k = n + 1 THEN Len(e) ELSE sp[k] - 1
               IN [k \in 1..(n + 1) |-> SubSeq(e, lo(k), hi(k))]

(* ---- line formats ---- *)
TagLine(fields) == Flatten([i \in 1..(2 * Len(fields) - 1) |-> IF i % 2 = 1 THEN EscTag(fields[(i + 1) \div 2]) ELSE <<COLON>>])
ParseTagLine(e) == LET f == Split(e, COLON) IN [k \in 1..Len(f) |-> UnescTag(f[k])]
RawLine(fields) == Flatten([i \in 1..(2 * Len(fields) - 1) |-> IF i % 2 = 1 THEN fields[(i + 1) \div 2] ELSE <<COLON>>])
(* "name -> target" / "name = name" on the terminal: the separator is the only place with unquoted spaces *)
TermPair(a, b, mid) == EscShell(a) \o <<SP, mid, SP>> \o EscShell(b)
ParseTermPair(e) == LET f == Split(e, SP) IN <<UnescShell(f[1]), UnescShell(f[Len(f)])>>

(* ---- what TLC checks ---- *)
VARIABLE s
TagTable == {[s |-> x, tag |-> EscTag(x), shell |-> EscShell(x)] : x \in Strings}
OutFile == IF "ESCOUT" \in DOMAIN IOEnv THEN IOEnv.ESCOUT ELSE "esc.json"
Init == s \in Strings
Next == UNCHANGED s
Spec == Init /\ [][Next]_s
ASSUME JsonSerialize(OutFile, [table |-> TagTable])

Short == {x \in Strings : Len(x) <= MaxLen - 1}
RoundTrip == UnescTag(EscTag(s)) = s /\ UnescShell(EscShell(s)) = s
Clean == /\ \A i \in 1..Len(EscTag(s)) : EscTag(s)[i] \notin {NL, CR, COLON}
         /\ \A i \in 1..Len(EscShell(s)) : EscShell(s)[i] \in ShellSpecial => Consumed(EscShell(s), i) \/ IsEscStart(EscShell(s), i)
TwoFields == \A t \in Short : /\ ParseTagLine(TagLine(<<s, t>>)) = <<s, t>>
                              /\ ParseTermPair(TermPair(s, t, EQ)) = <<s, t>>
                              /\ ParseTermPair(TermPair(s, t, GT)) = <<s, t>>
(* the claim that fails (finding F6): a name written without escaping is recovered by the documented decoding *)
RawIsDecodable == ParseTagLine(RawLine(<<s>>)) = <<s>>
=============================================================================
